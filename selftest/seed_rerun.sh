#!/bin/sh
# usage: selftest/seed_rerun.sh <seed-dir-name> <check-ids...>  - apply a stored seeded change to /repo, run the checks, undo
NAME="$1"; shift
P=/verif/seeded/$NAME/patch.diff
[ -z "$(git -C /repo status --porcelain --untracked-files=no)" ] || { echo "/repo is not clean"; exit 2; }
git -C /repo apply "$P" || exit 2
trap 'git -C /repo checkout -- .' EXIT INT TERM
cd /verif
for c in "$@"; do
	NV_EVIDENCE_DIR=/tmp/seed_evidence ./run "$c" quick > /tmp/seedrerun.log 2>&1; rc=$?
	echo "$NAME $c: exit=$rc violation_lines=$(grep -c '^VIOLATION' /tmp/seedrerun.log) $(grep -m1 '^  \[' /tmp/seedrerun.log | cut -c1-260)"
done
