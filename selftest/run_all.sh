#!/bin/sh
# usage: selftest/run_all.sh quick|thorough [logfile]  - run every check of a tier in turn, one summary line each
TIER="${1:-quick}"; LOG="${2:-/verif/selftest/last_$TIER.log}"
cd /verif
: > "$LOG"
for c in C01 C02 C03 C04 C05 C06 C07 C08 C09 C10 C11 C12 C13 C14 C15 C16 C17 C18 C19 C20; do
	s=$(date +%s); ./run $c $TIER > /tmp/run_all_$c.out 2>&1; rc=$?; e=$(date +%s)
	echo "$c rc=$rc $((e-s))s $(grep -v KNOWN /tmp/run_all_$c.out | tail -1 | cut -c1-200)" | tee -a "$LOG"
	rm -f /tmp/run_all_$c.out
done
