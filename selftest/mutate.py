#!/usr/bin/env python3
"""Mutation sweep used to measure (not to decide) what the checks detect.

  mutate.py gen  [files...]   enumerate first-order mutants of the repository sources, keep those that
                              compile and pass the repository's own 60 tests -> $W/survivors.jsonl
  mutate.py eval [n-first]    run the mapped quick checks against every test-surviving mutant (scratch
                              copy, NV_SRC), stop at the first check that reports it -> $W/eval.jsonl
  mutate.py report            summary table; undetected mutants listed with their diff

Scratch space is $W (default /tmp/nvmut); nothing a registered check needs lives there.
"""
import json, os, re, shutil, subprocess, sys, time, glob
from concurrent.futures import ThreadPoolExecutor

W = os.environ.get("NVMUT_DIR", "/tmp/nvmut")
REPO = "/repo"
VERIF = os.path.dirname(os.path.dirname(os.path.abspath(__file__)))
FILES = "lbuf.c sbuf.c regex.c rstr.c rset.c uc.c ren.c dir.c mot.c reg.c ex.c vi.c led.c term.c cmd.c".split()

# which quick checks look at code in which file (cheapest first)
MAP = {
    "lbuf.c": "C01 C03 C04 C06 C15 C02",
    "sbuf.c": "C01 C06 C14 C04 C08",
    "regex.c": "C10 C12 C16 C14 C11",
    "rstr.c": "C12 C13 C14 C10",
    "rset.c": "C10 C12 C13 C14 C19",
    "uc.c": "C16 C17 C18 C07 C08",
    "ren.c": "C17 C18 C07 C19",
    "dir.c": "C18 C17 C19",
    "mot.c": "C07 C13 C08 C09",
    "reg.c": "C08 C09 C06",
    "led.c": "C19 C09 C08 C06 C05",
    "ex.c": "C06 C14 C15 C13 C20 C03 C02 C01 C09",
    "vi.c": "C07 C19 C20 C04 C13 C09 C08 C05",
    "term.c": "C19 C09 C05",
    "cmd.c": "C06 C05",
}


# ex.c / vi.c / led.c hold much that no property speaks of (tags, completion, help, options): only the functions
# the properties are anchored in are evaluated there, each against the checks that drive it
FUNC_MAP = {}
def _fm(names, checks):
    for n in names.split():
        FUNC_MAP[n] = checks
_fm("ec_buffer bufs_findroom bufs_number bufs_find bufs_shift bufs_open bufs_init bufs_switch bufs_free", "C20 C02")
_fm("ec_edit", "C02 C20 C01")
_fm("ec_write lbuf_save", "C03 C02 C01")
_fm("ec_quit bufs_modified", "C02 C03 C20")
_fm("ex_region ex_lineno ex_search ec_null ex_loc", "C06 C13 C15")
_fm("ec_read ec_insert ec_print ec_put ec_yank ec_delete ec_mark ec_lnum ec_rs ec_at ec_exec ex_reg", "C06")
_fm("ec_substitute replace", "C14 C15")
_fm("ec_glob", "C15 C04")
_fm("ex_arg ex_cmd ex_exec ex_txt", "C06 C14 C15")
_fm("ec_undo ec_redo", "C04")
_fm("vi", "C07 C19 C09 C08")
_fm("vi_motion vi_nextoff vi_nextline vi_nextcol vi_motionln charcount vi_findchar vi_indents vi_col2off vi_off2col", "C07 C08")
_fm("vc_motion vc_insert vc_join vc_replace vi_case vi_shift vc_put vi_change vi_yank vi_delete vi_pipe lbuf_region join_spaces vi_yankbuf vi_prefix reg_putln", "C08 C09")
_fm("vi_search", "C13")
_fm("vi_drawfix vi_drawupdate vi_drawagain vi_drawrow vi_wfix vi_scrollforward vi_scrollbackward vi_pos vi_curcol vi_drawmsg", "C19")
_fm("vi_switch vi_wswap vi_wsplit vi_wonly vi_wclose", "C19 C20")
_fm("vc_execute vi_back vc_repeat", "C09")
_fm("led_input led_lastchar led_lastword led_readchar", "C08 C09")
_fm("led_render led_pos led_offdir led_markrev", "C19")

def func_of_lines(fn):
    out, cur = [], None
    lines = open(os.path.join(W, "base", fn), errors="replace").read().split("\n")
    for i, l in enumerate(lines):
        mm = re.match(r"^[A-Za-z_].*?\b(\w+)\(.*\)\s*$", l)
        if mm and i + 1 < len(lines) and lines[i + 1].startswith("{"):
            cur = mm.group(1)
        out.append(cur)
    return out

OPS = [
    (r"(?<![<\-=!>])<=(?!=)", "<"), (r"(?<![<\-=!>])<(?![<=])", "<="),
    (r"(?<![>\-=!<])>=(?!=)", ">"), (r"(?<![>\-=!<])>(?![>=])", ">="),
    (r"==", "!="), (r"!=", "=="), (r"&&", "||"), (r"\|\|", "&&"),
    (r"\+ 1\b", "+ 0"), (r"- 1\b", "- 0"), (r"\+ 1\b", "+ 2"), (r"- 1\b", "- 2"),
    (r"\+\+", "--"), (r"(?<!-)--(?!>)", "++"),
    (r"\breturn 0;", "return 1;"), (r"\breturn 1;", "return 0;"),
    (r"\+=", "-="), (r"-=", "+="),
]


def strip_line(ln):
    s = ln.strip()
    return s.startswith("#") or s.startswith("//") or s.startswith("/*") or s.startswith("*") or not s


def mutants_of(fn):
    src = open(os.path.join(prepare_base(), fn), errors="surrogateescape").read().split("\n")
    out = []
    instr = re.compile(r'"(?:[^"\\]|\\.)*"|\'(?:[^\'\\]|\\.)*\'')
    for i, ln in enumerate(src):
        if strip_line(ln):
            continue
        masked = instr.sub(lambda m: "\0" * len(m.group(0)), ln)
        cm = masked.find("/*")
        if cm >= 0:
            masked = masked[:cm] + "\0" * (len(masked) - cm)
        for pat, rep in OPS:
            for m in re.finditer(pat, masked):
                new = ln[:m.start()] + rep + ln[m.end():]
                out.append({"file": fn, "line": i + 1, "col": m.start(), "old": ln, "new": new,
                            "op": "%s->%s" % (m.group(0), rep)})
        # statement deletion: a simple one-line statement (call or assignment) inside a function body
        s = ln.strip()
        if ln.startswith("\t") and s.endswith(";") and not re.match(
                r"(return|break|continue|goto|case|default|else|int |char |struct |static |long |unsigned |void |const |double |\}|do\b|for\b|while\b|if\b)", s) \
                and "=" in s or (ln.startswith("\t") and re.match(r"[a-z_]+\(.*\);$", s)):
            out.append({"file": fn, "line": i + 1, "col": 0, "old": ln, "new": ln[:len(ln) - len(ln.lstrip())] + ";",
                        "op": "delete-stmt"})
    return out


def prepare_base():
    base = os.path.join(W, "base")
    if os.path.exists(os.path.join(base, "vi")):
        return base
    os.makedirs(base, exist_ok=True)
    subprocess.run("cd %s && git archive HEAD | tar -x -C %s" % (REPO, base), shell=True, check=True)
    subprocess.run(["make", "-s", "-C", base], check=True, stdout=subprocess.DEVNULL, stderr=subprocess.DEVNULL)
    return base


def worker_dir(k):
    base = prepare_base()
    d = os.path.join(W, "w%d" % k)
    if not os.path.exists(d):
        shutil.copytree(base, d)
        t = open(os.path.join(d, "test.sh")).read().replace("/tmp/.neatvi", d + "/.nvtmp")
        open(os.path.join(d, "mytest.sh"), "w").write(t)
    return d


def try_mutant(k, m):
    d = worker_dir(k)
    p = os.path.join(d, m["file"])
    orig = open(os.path.join(W, "base", m["file"]), errors="surrogateescape").read()
    lines = orig.split("\n")
    lines[m["line"] - 1] = m["new"]
    with open(p, "w", errors="surrogateescape") as f:
        f.write("\n".join(lines))
    try:
        r = subprocess.run(["make", "-s", "-C", d, "CFLAGS=-O2 -w"], stdout=subprocess.DEVNULL, stderr=subprocess.DEVNULL)
        if r.returncode:
            return "nocompile"
        pr = subprocess.Popen(["sh", "mytest.sh"], cwd=d, stdout=subprocess.PIPE, stderr=subprocess.DEVNULL,
                              stdin=subprocess.DEVNULL, start_new_session=True)
        try:
            out, _ = pr.communicate(timeout=60)
        except subprocess.TimeoutExpired:
            try:
                os.killpg(pr.pid, 9)
            except OSError:
                pass
            pr.wait()
            return "test-hang"
        finally:
            try:
                os.killpg(pr.pid, 9)	# stragglers of the session (a vi that ignores EOF)
            except OSError:
                pass
        class R: pass
        r = R(); r.stdout = out; r.returncode = pr.returncode
        ok = r.stdout.decode(errors="replace").count("OK")
        return "survives" if (r.returncode == 0 and ok == 60) else "killed-by-tests"
    finally:
        with open(p, "w", errors="surrogateescape") as f:
            f.write(orig)


def gen(files):
    os.makedirs(W, exist_ok=True)
    allm = []
    for fn in files:
        allm += mutants_of(fn)
    print("mutants:", len(allm), flush=True)
    nw = int(os.environ.get("NVMUT_WORKERS", "8"))
    for k in range(nw):
        worker_dir(k)
    # group per worker by file to keep incremental builds cheap
    chunks = [allm[i::nw] for i in range(nw)]
    outp = os.path.join(W, "survivors.jsonl")
    tally = {}

    import threading
    lock = threading.Lock()

    def run(k):
        res = []
        for m in chunks[k]:
            m["status"] = try_mutant(k, m)
            res.append(m)
            if m["status"] == "survives":
                with lock:
                    with open(outp, "a") as f:
                        f.write(json.dumps(m) + "\n")
        return res
    with ThreadPoolExecutor(nw) as ex:
        results = list(ex.map(run, range(nw)))
    for res in results:
        for m in res:
            tally[m["status"]] = tally.get(m["status"], 0) + 1
    print(tally)


_FUNCS = {}
def evaluate(limit, files=None):
    surv = [json.loads(l) for l in open(os.path.join(W, "survivors.jsonl"))]
    donep = os.path.join(W, "eval.jsonl")
    done = set()
    if os.path.exists(donep):
        for l in open(donep):
            e = json.loads(l)
            done.add((e["file"], e["line"], e["col"], e["op"]))
    d = os.path.join(W, "evalsrc.%d" % os.getpid())
    n = 0
    # relational / arithmetic / logic mutants first, statement deletions last (many of those are leaks only)
    forder = {f: i for i, f in enumerate(FILES)}
    surv.sort(key=lambda m: (forder.get(m["file"], 99), m["line"]))
    cnt = {}
    for m in surv:			# round-robin over the files, so that every file is sampled early
        k = (m["file"], m["op"] == "delete-stmt")
        cnt[k] = cnt.get(k, 0) + 1
        m["_rank"] = cnt[k]
    surv.sort(key=lambda m: (m["op"] == "delete-stmt", m["_rank"], forder.get(m["file"], 99)))
    surv = [m for m in surv if "free(" not in m["old"] or m["op"] != "delete-stmt"]	# leaks are outside every property
    for m in surv:
        key = (m["file"], m["line"], m["col"], m["op"])
        if key in done or (files and m["file"] not in files):
            continue
        if m["line"] < int(os.environ.get("NVMUT_MINLINE", "0")):
            continue
        if limit and n >= limit:
            break
        n += 1
        shutil.rmtree(d, ignore_errors=True)
        os.makedirs(d)
        for f in glob.glob(os.path.join(W, "base", "*.[ch]")) + [os.path.join(W, "base", "Makefile")]:
            shutil.copy(f, d)
        p = os.path.join(d, m["file"])
        lines = open(p, errors="surrogateescape").read().split("\n")
        lines[m["line"] - 1] = m["new"]
        open(p, "w", errors="surrogateescape").write("\n".join(lines))
        env = dict(os.environ, NV_SRC=d, NV_EVIDENCE_DIR=os.path.join(W, "evidence"))
        caught, log = None, []
        t0 = time.time()
        fnname = _FUNCS.setdefault(m["file"], func_of_lines(m["file"]))[m["line"] - 1]
        m["func"] = fnname
        checklist = FUNC_MAP.get(fnname) if m["file"] in ("ex.c", "vi.c", "led.c") else MAP[m["file"]]
        if not checklist:
            continue
        for cid in checklist.split():
            r = subprocess.run(["./run", cid, "quick"], cwd=VERIF, env=env, stdout=subprocess.PIPE,
                               stderr=subprocess.STDOUT)
            out = r.stdout.decode(errors="replace")
            v = [l for l in out.split("\n") if l.startswith("VIOLATION")]
            log.append((cid, r.returncode))
            if r.returncode == 1 and v:
                caught = cid
                m["viol"] = v[0][:200]
                break
            if r.returncode not in (0, 1):
                m.setdefault("errors", []).append(cid + ": " + out[-300:])
        m["caught"] = caught
        m["log"] = log
        m["secs"] = round(time.time() - t0, 1)
        with open(donep, "a") as f:
            f.write(json.dumps(m) + "\n")
        print("%s:%d %s -> %s (%.0fs)" % (m["file"], m["line"], m["op"], caught or "UNDETECTED", m["secs"]), flush=True)
        # drop this mutant's builds
        for b in glob.glob(os.path.join(VERIF, "build", "*-*")):
            try:
                if os.path.isdir(b) and open(os.path.join(b, ".src")).read() == d:
                    shutil.rmtree(b, ignore_errors=True)
            except OSError:
                pass
    shutil.rmtree(d, ignore_errors=True)


def report():
    ev = [json.loads(l) for l in open(os.path.join(W, "eval.jsonl"))]
    by = {}
    for e in ev:
        k = e["file"]
        a = by.setdefault(k, [0, 0])
        a[0] += 1
        a[1] += 1 if e["caught"] else 0
    for k, (n, c) in sorted(by.items()):
        print("%-8s test-surviving=%d detected=%d" % (k, n, c))
    print()
    for e in ev:
        if e.get("errors"):
            print("HARNESS-ERROR %s:%d [%s] %s" % (e["file"], e["line"], e["op"], e["errors"][0][:300].replace("\n", " ")))
    for e in ev:
        if not e["caught"]:
            print("UNDETECTED %s:%d [%s]\n   - %s\n   + %s" % (e["file"], e["line"], e["op"], e["old"].strip(), e["new"].strip()))


if __name__ == "__main__":
    cmd = sys.argv[1]
    if cmd == "gen":
        gen(sys.argv[2:] or FILES)
    elif cmd == "eval":
        evaluate(int(sys.argv[2]) if len(sys.argv) > 2 else 0, sys.argv[3:] or None)
    elif cmd == "report":
        report()
