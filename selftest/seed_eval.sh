#!/bin/sh
# usage: selftest/seed_eval.sh <seed-dir-name> <property> <check-ids...>
# 1. confirms the seeded change in a scratch worktree: applies, builds, 60/60 tests, demo fails with / passes without
# 2. applies it to /repo, runs the named checks (quick), undoes it
# 3. stores patch, demo and meta.json under /verif/seeded/<seed-dir-name>/
set -u
NAME="$1"; PROP="$2"; shift 2
SRC="/tmp/seed_$PROP"
[ -n "${SEEDSRC:-}" ] && SRC="$SEEDSRC"
OUT="/verif/seeded/$NAME"
mkdir -p "$OUT"
for f in patch.diff demo.sh demo.c NOTES.md; do [ -f "$SRC/$f" ] && cp "$SRC/$f" "$OUT/"; done
# helper files of the demonstration (untracked text files of the contributor's worktree)
for f in $(git -C "$SRC" ls-files --others --exclude-standard | grep -v / | grep -E '\.(c|py|sh|awk|txt|md)$' | grep -v -E '^(mytest\.sh|AVOID\.txt)$'); do
	[ -f "$SRC/$f" ] && [ "$(wc -c < "$SRC/$f")" -lt 100000 ] && cp "$SRC/$f" "$OUT/"
done
W=/tmp/ver_$NAME
git -C /repo worktree remove --force "$W" >/dev/null 2>&1
git -C /repo worktree add -q --detach "$W" HEAD || exit 2
cd "$W"
for f in demo.sh demo.c; do [ -f "$OUT/$f" ] && cp "$OUT/$f" .; done
for f in "$OUT"/*.py "$OUT"/*.c "$OUT"/*.sh "$OUT"/*.awk; do [ -f "$f" ] && cp "$f" .; done 2>/dev/null
if ! git apply "$OUT/patch.diff"; then echo "PATCH DOES NOT APPLY"; applies=no; else applies=yes; fi
make -s >/dev/null 2>&1; built=$?
sed "s#/tmp/.neatvi#$W/.nvtmp#g" test.sh > mytest.sh; tests=$(timeout 300 sh mytest.sh 2>/dev/null </dev/null | grep -c OK)
timeout 600 sh demo.sh > demo_with.log 2>&1 </dev/null; with=$?
git checkout -q -- . ; make -s clean >/dev/null 2>&1; make -s >/dev/null 2>&1
timeout 600 sh demo.sh > demo_without.log 2>&1 </dev/null; without=$?
echo "confirm: applies=$applies build_rc=$built tests_ok=$tests/60 demo_with_change_rc=$with demo_without_rc=$without"
cd /verif
git -C /repo worktree remove --force "$W" >/dev/null 2>&1
# run the checks against /repo with the change applied
results=""
if [ "$applies" = yes ]; then
	git -C /repo apply "$OUT/patch.diff" || exit 2
	trap 'git -C /repo checkout -- . ' EXIT INT TERM
	for c in "$@"; do
		NV_EVIDENCE_DIR=/tmp/seed_evidence ./run "$c" quick > "/tmp/seedrun_${NAME}_$c.log" 2>&1; rc=$?
		nv=$(grep -c '^VIOLATION' "/tmp/seedrun_${NAME}_$c.log")
		first=$(grep -m1 '^  \[' "/tmp/seedrun_${NAME}_$c.log" | cut -c1-300)
		echo "check $c: exit=$rc violations_lines=$nv  $first"
		results="$results{\"check\":\"$c\",\"exit\":$rc,\"violation_lines\":$nv},"
	done
	git -C /repo checkout -- .
	trap - EXIT INT TERM
fi
cat > "$OUT/meta.json" <<M
{
 "property": "$PROP",
 "confirmed": {"patch_applies": "$applies", "build_rc": $built, "tests_ok": "$tests/60", "demo_exit_with_change": $with, "demo_exit_without_change": $without},
 "needs_to_manifest": "see NOTES.md",
 "checks_run": [${results%,}],
 "ran": "selftest/seed_eval.sh $NAME $PROP $*"
}
M
git -C /repo status --short | head -3
