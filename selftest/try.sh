#!/bin/sh
# usage: selftest/try.sh <patch-or-sed> <ID> [tier]   - run a check against a mutated scratch copy of /repo
# <patch-or-sed>: a .diff file (applied with patch -p1) or "file:sed-expression"
set -e
M="$1"; ID="$2"; TIER="${3:-quick}"
D=$(mktemp -d /tmp/nvmut.XXXXXX)
trap 'rm -rf "$D"' EXIT
(cd /repo && git ls-files -z | xargs -0 cp --parents -t "$D")
case "$M" in
*.diff|*.patch) (cd "$D" && patch -s -p1 < "$M") ;;
*) f="${M%%:*}"; e="${M#*:}"; sed -i "$e" "$D/$f"; (cd "$D" && diff -u /repo/"$f" "$f" | head -20 || true) ;;
esac
if [ -n "$RUNTESTS" ]; then (cd "$D" && make -s >/dev/null 2>&1 && ./test.sh | grep -c OK); fi
cd /verif && NV_SRC="$D" ./run "$ID" "$TIER"; echo "exit=$?"
