/* C11: any pattern string is safely rejected or compiled; matching stays in bounds (ASan build) */
#include "nvh.h"
#include "vi.h"
#include "regex.h"

int peek_re_prog_len(regex_t *preg);
int peek_re_rnode_count_plus3(char *pat);

static const char *alpha[] = {"a", "(", ")", "[", "]", "^", "$", "|", "*", "+", "?", "{", "}", ",", "1", "2",
	"\\", "<", ">", ".", "-", ":", "\xc3", "\xa9"};
#define NA 24

static const char *lines[] = {"\n", "a\n", "aaa\n", "a1\n", "\xc3\xa9\n", "a\xc3\xa9" "2\n", "a-1:2\n",
	"(a)[1]{2}\n", "a,b.c \xe4\xb8\x80\n", "^$|*+?\\<>\n", "zaab\n"};
#define NLINES 11

static int exact_only;
static long n_compiled, n_rejected, n_matches, n_found;
static struct nv_set shapes;

static int on_boundary(const char *ln, int o)
{
	return (((unsigned char) ln[o]) & 0xc0) != 0x80;
}

static int check_offsets(const char *api, const char *pat, int patlen, const char *ln, int icase, int flg, int *g, int n)
{
	int len = strlen(ln), i;
	for (i = 0; i < n; i++) {
		int so = g[i * 2], eo = g[i * 2 + 1];
		if (i > 0 && so == -1 && eo == -1)
			continue;
		if (so == -7 || eo == -7) {
			nv_viol("c11-uninit", "kind=pattern api=%s pattern=\"%s\" line=\"%s\" icase=%d flags=%d group %d left uninitialised after a successful match",
				api, nv_esc(pat, patlen), nv_esc(ln, -1), icase, flg, i);
			return 1;
		}
		if (so < 0 || eo < so || eo > len) {
			nv_viol("c11-offsets", "kind=pattern api=%s pattern=\"%s\" line=\"%s\" icase=%d flags=%d group %d = (%d,%d) outside 0<=so<=eo<=%d",
				api, nv_esc(pat, patlen), nv_esc(ln, -1), icase, flg, i, so, eo, len);
			return 1;
		}
		if (!on_boundary(ln, so) || !on_boundary(ln, eo)) {
			nv_dev("c11-boundary-nonutf8-pattern", "kind=pattern api=%s pattern=\"%s\" line=\"%s\" icase=%d flags=%d group %d = (%d,%d) splits a character",
				api, nv_esc(pat, patlen), nv_esc(ln, -1), icase, flg, i, so, eo);
			return 1;
		}
	}
	return 0;
}

static int valid_utf8(const char *s)
{
	const unsigned char *u = (const unsigned char *) s;
	while (*u) {
		int l = *u < 0x80 ? 1 : (*u & 0xe0) == 0xc0 ? 2 : (*u & 0xf0) == 0xe0 ? 3 : (*u & 0xf8) == 0xf0 ? 4 : 0, i;
		if (!l)
			return 0;
		for (i = 1; i < l; i++)
			if ((u[i] & 0xc0) != 0x80)
				return 0;
		u += l;
	}
	return 1;
}

static void one_pattern(const char *pat0)
{
	/* exact-size heap copies, so that reads past the pattern are visible to the sanitizer */
	int plen = strlen(pat0);
	char *pat = malloc(plen + 1);
	char *wrapped = malloc(plen + 5);
	regex_t re;
	int icase, l, f;
	memcpy(pat, pat0, plen + 1);
	sprintf(wrapped, "((%s))", pat0);
	nv_guard(30, "c11-hang", "pattern=\"%s\"", nv_esc(pat0, -1));
	nv_stat("transitions", 1);
	/* compile directly: the emitted program must fit its allocation */
	if (!regcomp(&re, wrapped, REG_EXTENDED)) {
		int n = peek_re_prog_len(&re);
		int alloc = peek_re_rnode_count_plus3(wrapped);
		if (n > alloc)
			nv_viol("c11-progsize", "kind=pattern pattern=\"%s\" emitted %d instructions into an allocation of %d", nv_esc(wrapped, -1), n, alloc);
		regfree(&re);
		nv_stat("compiled", 1);
		nv_stat("distinct_nontrivial", 1);
	} else {
		nv_stat("rejected", 1);
	}
	/* the reader that cuts a delimited pattern out of a command (/pat/, :s/pat/.., :g/pat/..): it must stop
	 * at the end of the string whatever the pattern ends in (exact-size heap copy, so the sanitizer sees it) */
	{
		static const char delims[] = "/?|";
		int di;
		for (di = 0; di < 3; di++) {
			char *src = malloc(plen + 2), *p2 = src, *r;
			src[0] = delims[di];
			memcpy(src + 1, pat0, plen + 1);
			r = re_read(&p2);
			if (!r || p2 < src + 1 || p2 > src + plen + 1)
				nv_viol("c11-reread", "kind=pattern the pattern reader on \"%c%s\" returned %s and left the scan position at offset %ld of %d",
					delims[di], nv_esc(pat0, -1), r ? "a pattern" : "NULL", (long) (p2 - src), plen + 1);
			free(r);
			free(src);
		}
	}
	nv_stat("states", 1);
	n_matches = n_found = 0;
	if (!exact_only) {
		for (icase = 0; icase < 2; icase++) {
			char *pp = pat;
			struct rset *rs = rset_make(1, &pp, icase ? RE_ICASE : 0);
			struct rstr *rt = rstr_make(pat, icase ? RE_ICASE : 0);
			for (l = 0; l < NLINES; l++)
				for (f = 0; f < 4; f++) {
					int flg = (f & 1 ? RE_NOTBOL : 0) | (f & 2 ? RE_NOTEOL : 0);
					int g[16], i, r;
					char *ln = uc_dup((char *) lines[l]);
					if (rs) {
						for (i = 0; i < 16; i++)
							g[i] = -7;
						r = rset_find(rs, ln, 8, g, flg);
						n_matches++;
						if (r >= 0) {
							n_found++;
							check_offsets("rset", pat, plen, ln, icase, flg, g, 8);
						}
						/* also without group array, as the editor's address search does */
						rset_find(rs, ln, 0, NULL, flg);
					}
					if (rt) {
						for (i = 0; i < 16; i++)
							g[i] = -7;
						r = rstr_find(rt, ln, 8, g, flg);
						n_matches++;
						if (r >= 0) {
							n_found++;
							check_offsets("rstr", pat, plen, ln, icase, flg, g, 8);
						}
						rstr_find(rt, ln, 0, NULL, flg);
					}
					free(ln);
				}
			if (rs)
				rset_free(rs);
			if (rt)
				rstr_free(rt);
		}
	}
	(void) valid_utf8;
	nv_stat("evaluations", 1 + n_matches);
	nv_stat("transitions", n_matches);
	nv_stat("matches_found", n_found);
	free(pat);
	free(wrapped);
}

/* ---- case list: index -> pattern ---------------------------------------------------------------- */
static int maxlen;
static long n_enum;		/* strings of length <= maxlen */
static char **family;
static long n_family;

static void add_family(const char *fmt, ...)
{
	char buf[600];
	va_list ap;
	va_start(ap, fmt);
	vsnprintf(buf, sizeof(buf), fmt, ap);
	va_end(ap);
	family = realloc(family, (n_family + 1) * sizeof(family[0]));
	family[n_family++] = strdup(buf);
}

static void build_family(void)
{
	static const char *X[] = {"a", "(a)", "(a|b)", "[ab]", "."};
	static const char *B[] = {"0", "1", "2", "127", "128", "129", "255", "4294967295", "99999999999"};
	int x, m, n, p, q, k;
	for (x = 0; x < 5; x++)
		for (m = 0; m < 9; m++) {
			add_family("%s{%s}", X[x], B[m]);
			add_family("%s{%s,}", X[x], B[m]);
			add_family("%s{,%s}", X[x], B[m]);
			for (n = 0; n < 9; n++) {
				add_family("%s{%s,%s}", X[x], B[m], B[n]);
				add_family("%s{%s,%s", X[x], B[m], B[n]);
				if (!nv_thorough && (m > 6 || n > 6))
					continue;
				for (p = 0; p < 9; p++)
					for (q = 0; q < 9; q++) {
						if (!nv_thorough && (p > 2 && p != 4) )
							continue;
						if (!nv_thorough && (q > 2 && q != 4))
							continue;
						add_family("(%s{%s,%s}){%s,%s}", X[x], B[m], B[n], B[p], B[q]);
					}
			}
		}
	/* starred groups that can match the empty string in more than one way (matching must still terminate) */
	{
		static const char *ns[] = {"(|a)*b", "(|$)*a", "(a*)*b", "(a|b*)*c", "(a?)*b", "(|a)+]", "(^|a)*b", "((|a)*)*b", "(\\<|a)*b", "(|a|b)*c"};
		unsigned i;
		for (i = 0; i < sizeof(ns) / sizeof(ns[0]); i++)
			add_family("%s", ns[i]);
	}
	/* group counts around the mark table (64 marks = 32 groups) and the set limit */
	{
		static const int ks[] = {29, 30, 31, 32, 33, 34, 61, 62, 63, 64, 65, 66, 130};
		unsigned i;
		for (i = 0; i < sizeof(ks) / sizeof(ks[0]); i++) {
			char buf[600] = "";
			for (k = 0; k < ks[i]; k++)
				strcat(buf, "(a)");
			add_family("%s", buf);
			add_family("%s\\>", buf);
			add_family("z%s*b", buf);		/* the last group starred */
			add_family("%s(|a)*b", buf);
			{
				char opt[600] = "";
				for (k = 0; k < ks[i] && strlen(opt) < 580; k++)
					strcat(opt, "(x)?");
				add_family("z%s(a)*b", opt);	/* optional groups, then a starred group with a high number */
			}
		}
	}
	/* long literal runs and nested groups */
	{
		char buf[600] = "";
		for (k = 0; k < 100; k++)
			strcat(buf, "(");
		strcat(buf, "a");
		for (k = 0; k < 100; k++)
			strcat(buf, ")");
		add_family("%s", buf);
		buf[0] = '\0';
		for (k = 0; k < 300; k++)
			strcat(buf, "a");
		add_family("%s", buf);
		add_family("%s*", buf);
		add_family("[%s", buf);
		add_family("[[:%s", buf);
	}
}

static void idx_pattern(long i, char *out)
{
	int n;
	long c = 1;
	out[0] = '\0';
	if (i >= n_enum) {
		strcpy(out, family[i - n_enum]);
		return;
	}
	for (n = 0; n <= maxlen; n++, c *= NA) {
		if (i < c) {
			int k;
			for (k = 0; k < n; k++) {
				strcat(out, alpha[i % NA]);
				i /= NA;
			}
			return;
		}
		i -= c;
	}
}

static long my_cases;
static void run_case(long j)
{
	char pat[700];
	idx_pattern(j * nv_nshards + nv_shard, pat);
	one_pattern(pat);
	if (j < 2)
		nv_sample("pattern \"%s\": regcomp program length vs allocation; rset/rstr x icase x %d lines x notbol x noteol, offsets in range and on character boundaries", nv_esc(pat, -1), NLINES);
}

static void desc_case(long j, char *buf, int len)
{
	char pat[700];
	idx_pattern(j * nv_nshards + nv_shard, pat);
	snprintf(buf, len, "pattern=\"%s\"", nv_esc(pat, -1));
}

int main(int argc, char **argv)
{
	long total, c;
	int n;
	char errpath[512];
	nv_init(argc, argv);
	maxlen = atoi(nv_arg(argc, argv, "len", nv_thorough ? "5" : "4"));
	exact_only = atoi(nv_arg(argc, argv, "exact", "0"));
	nv_set_init(&shapes, 1 << 12);
	for (n = 0, c = 1; n <= maxlen; n++, c *= NA)
		n_enum += c;
	if (!exact_only)
		build_family();
	if (nv_arg(argc, argv, "pat", NULL)) {		/* replay of one named pattern */
		one_pattern(nv_arg(argc, argv, "pat", ""));
		alarm(0);
		return nv_finish();
	}
	total = n_enum + n_family;
	my_cases = (total - nv_shard + nv_nshards - 1) / nv_nshards;
	snprintf(errpath, sizeof(errpath), "%s.err", nv_arg(argc, argv, "out", "c11"));
	nv_forkloop(my_cases, run_case, desc_case, "c11-memory", errpath);
	/* counters of the children were flushed by them; add the static ones */
	nv_stat("max:pattern_len", maxlen);
	nv_stat("family_patterns", nv_shard == 0 ? n_family : 0);
	return nv_finish();
}
