/* C15: global runs its command once per matching line, undone as one step (real :g through ex_command) */
#include "nvenv.h"
#include "vi.h"
#include "refex.h"

static int starved;		/* the editor asked for more text blocks than the reference executions need */
static void nx_choice(void)
{
	/* the script ran dry inside a text block: end it, and remember */
	starved++;
	nvx_feed(".\n", -1);
}

static const char *contents[] = {"a", "b", "ab", ""};
static const char *pats[] = {"a", "^$", "b$", "."};
static const char *negs[] = {"g", "g!", "v"};
static const char *ranges[] = {"", "%", "2,3", "2,$"};

static int pm(int p, const char *s)
{
	int l = strlen(s);
	switch (p) {
	case 0: return strchr(s, 'a') != NULL;
	case 1: return l == 0;
	case 2: return l > 0 && s[l - 1] == 'b';
	default: return l > 0;
	}
}

/* command lists: ex text and a reference interpretation */
enum { L_D, L_M1D, L_P1D, L_DOTP1D, L_S1, L_S2, L_PU, L_0PU, L_I, L_A, L_C, L_M1A, L_DPU, L_SM1D, L_GD, L_GS, L_YPU, L_KD, L_C2, L_I2, L_A2, L_CR, L_ZD, L_P9D, L_P1SBA, L_P1SAB, L_M1SBA, L_M2M1D, L_M2M1S, L_M1DOTD, L_NESTR, NLIST };
static const char *list_txt[NLIST] = {
	"d", "-1d", "+1d", ".,+1d", "s/a/b/", "s/a/ab/g", "pu a", "0pu a", "i", "a", "c", "-1a", "d|pu", "s/a/c/|-1d",
	"g/b/d", "g/a/s/a/b/", "y b|pu b", "ka|'ad", "c", "i", "a", ".,+1c",
	"'zd", "+9d",		/* rejected at the first execution: the global stops with every other line still marked */
	"+1s/b/a/", "+1s/a/b/", "-1s/b/a/",	/* change whether a neighbouring line matches: the pattern is tested at the time of the visit */
	"-2,-1d",	/* removes two lines above the current one: the lines still to be visited move up past the scan position */
	"-2,-1s/$/x/",	/* leaves the current line two above where the scan stood */
	"-1,.d",	/* removes the line above and the current one */
	".,+1g/./s/$/!/",	/* a nested global over a range that holds lines the outer one has still to visit */
};
static const int list_blocks[NLIST] = {0, 0, 0, 0, 0, 0, 0, 0, 1, 1, 1, 1, 0, 0, 0, 0, 0, 0, 1, 1, 1, 1, 0, 0, 0, 0, 0, 0, 0, 0, 0};
/* text blocks: single line "x" (or "a" for -1a); the last four lists use two-line blocks whose lines match the patterns */
static const char *list_block_text[NLIST] = {0, 0, 0, 0, 0, 0, 0, 0, "x\n", "x\n", "x\n", "a\n", 0, 0, 0, 0, 0, 0, "a\nab\n", "a\nb\n", "ab\n\n", "b\n", 0, 0, 0, 0, 0, 0, 0, 0, 0};

static void subst(struct xm *m, int idx, const char *from, const char *to, int g)
{
	char out[XM_LNSZ * 2] = "";
	const char *s = m->ln[idx].s;
	int did = 0;
	while (*s) {
		if ((g || !did) && !strncmp(s, from, strlen(from))) {
			strcat(out, to);
			s += strlen(from);
			did = 1;
		} else {
			strncat(out, s, 1);
			s++;
		}
	}
	snprintf(m->ln[idx].s, XM_LNSZ, "%s", out);
}

static const char *nofile(const char *n)
{
	(void) n;
	return NULL;
}

/* one structured command with address "current line + off" (off2 < 99: range to current + off2) */
static int rel(struct xm *m, int cmd, int has_off, int off, int two, int off2, int reg, const char *text, int zero)
{
	struct xcmd c;
	memset(&c, 0, sizeof(c));
	c.cmd = cmd;
	c.reg = reg;
	c.text = text;
	c.sep = ',';
	if (zero) {
		c.naddr = 1;
		c.a1.type = XA_NUM;
		c.a1.num = 0;
	} else if (two) {
		c.naddr = 2;
		c.a1.type = XA_DOT;
		c.a2.type = XA_NONE;
		c.a2.has_off = 1;
		c.a2.off = off2;
	} else if (has_off) {
		c.naddr = 1;
		c.a1.type = XA_NONE;
		c.a1.has_off = 1;
		c.a1.off = off;
	}
	return refex_exec(m, &c, nofile);
}

/* returns 1 when the last command of the list was rejected (the real global then stops) */
static int exec_list(struct xm *m, int l)
{
	int r;
	switch (l) {
	case L_P1SBA:
	case L_P1SAB:
		if (m->cur + 1 >= m->n)
			return 1;		/* no next line: rejected */
		subst(m, m->cur + 1, l == L_P1SBA ? "b" : "a", l == L_P1SBA ? "a" : "b", 0);
		return 0;
	case L_M1SBA:
		/* "-1" on line 1 is address 0, accepted as an empty range (known finding c06-unresolved-accepted) */
		if (m->cur == 0)
			return 0;
		subst(m, m->cur - 1, "b", "a", 0);
		return 0;
	case L_NESTR: {
		int i;
		if (m->cur + 1 >= m->n)
			return 1;		/* the range reaches past the last line: rejected */
		for (i = m->cur; i <= m->cur + 1; i++)
			if (m->ln[i].s[0])
				strncat(m->ln[i].s, "!", XM_LNSZ - strlen(m->ln[i].s) - 1);
		return 0;
	}
	case L_M1DOTD: {
		struct xcmd c;
		if (m->cur < 1)
			return 1;		/* the range starts above the first line: rejected */
		memset(&c, 0, sizeof(c));
		c.cmd = XC_D;
		c.naddr = 2;
		c.sep = ',';
		c.a1.type = XA_NONE; c.a1.has_off = 1; c.a1.off = -1;
		c.a2.type = XA_DOT;
		return refex_exec(m, &c, nofile);
	}
	case L_M2M1D:
	case L_M2M1S: {
		struct xcmd c;
		int i;
		if (m->cur < 2)
			return 1;		/* the range reaches above the first line: rejected */
		if (l == L_M2M1S) {
			for (i = m->cur - 2; i <= m->cur - 1; i++)
				strncat(m->ln[i].s, "x", XM_LNSZ - strlen(m->ln[i].s) - 1);
			return 0;
		}
		memset(&c, 0, sizeof(c));
		c.cmd = XC_D;
		c.naddr = 2;
		c.sep = ',';
		c.a1.type = XA_NONE; c.a1.has_off = 1; c.a1.off = -2;
		c.a2.type = XA_NONE; c.a2.has_off = 1; c.a2.off = -1;
		return refex_exec(m, &c, nofile);
	}
	case L_ZD: return 1;		/* mark z is never set */
	case L_P9D: return 1;		/* no buffer here has 9 lines after the current one */
	case L_D: return rel(m, XC_D, 0, 0, 0, 0, 0, NULL, 0);
	case L_M1D:
		/* "-1" on line 1 is address 0, which :d accepts as an empty range (known finding c06-unresolved-accepted) */
		if (m->cur == 0) {
			m->cur = 0;
			return 0;
		}
		return rel(m, XC_D, 1, -1, 0, 0, 0, NULL, 0);
	case L_P1D: return rel(m, XC_D, 1, 1, 0, 0, 0, NULL, 0);
	case L_DOTP1D: return rel(m, XC_D, 0, 0, 1, 1, 0, NULL, 0);
	case L_S1: subst(m, m->cur, "a", "b", 0); return 0;
	case L_S2: subst(m, m->cur, "a", "ab", 1); return 0;
	case L_PU: return rel(m, XC_PU, 0, 0, 0, 0, 1, NULL, 0);
	case L_0PU: return rel(m, XC_PU, 0, 0, 0, 0, 1, NULL, 1);
	case L_I: return rel(m, XC_I, 0, 0, 0, 0, 0, "x\n", 0);
	case L_A: return rel(m, XC_A, 0, 0, 0, 0, 0, "x\n", 0);
	case L_C: return rel(m, XC_C, 0, 0, 0, 0, 0, "x\n", 0);
	case L_C2: return rel(m, XC_C, 0, 0, 0, 0, 0, list_block_text[L_C2], 0);
	case L_I2: return rel(m, XC_I, 0, 0, 0, 0, 0, list_block_text[L_I2], 0);
	case L_A2: return rel(m, XC_A, 0, 0, 0, 0, 0, list_block_text[L_A2], 0);
	case L_CR: return rel(m, XC_C, 0, 0, 1, 1, 0, list_block_text[L_CR], 0);
	case L_M1A:
		return rel(m, XC_A, 1, -1, 0, 0, 0, "a\n", 0);
	case L_DPU:
		rel(m, XC_D, 0, 0, 0, 0, 0, NULL, 0);
		if (m->n == 0) {
			/* :pu in the buffer just emptied */
			return rel(m, XC_PU, 0, 0, 0, 0, 0, NULL, 0);
		}
		return rel(m, XC_PU, 0, 0, 0, 0, 0, NULL, 0);
	case L_SM1D:
		subst(m, m->cur, "a", "c", 0);
		if (m->cur == 0)
			return 0;
		return rel(m, XC_D, 1, -1, 0, 0, 0, NULL, 0);
	case L_GD:
		if (pm(2 - 2 + 0, m->ln[m->cur].s) && 0)
			return 0;
		if (strchr(m->ln[m->cur].s, 'b'))
			return rel(m, XC_D, 0, 0, 0, 0, 0, NULL, 0);
		return 0;
	case L_GS:
		if (strchr(m->ln[m->cur].s, 'a'))
			subst(m, m->cur, "a", "b", 0);
		return 0;
	case L_YPU:
		rel(m, XC_Y, 0, 0, 0, 0, 2, NULL, 0);
		return rel(m, XC_PU, 0, 0, 0, 0, 2, NULL, 0);
	case L_KD: {
		struct xcmd c;
		memset(&c, 0, sizeof(c));
		c.cmd = XC_K;
		c.markname = 0;
		refex_exec(m, &c, nofile);
		memset(&c, 0, sizeof(c));
		c.cmd = XC_D;
		c.naddr = 1;
		c.a1.type = XA_MARK;
		c.a1.mark = 0;
		r = refex_exec(m, &c, nofile);
		return r;
	}
	}
	return 1;
}

static long n_glob, n_changed, n_exec_total;
static int trace_every;

/* chain: instead of the undo step, two further globals run on the state the first one left behind
 * (marks of an earlier global must not leak into a later one) */
static void one_case(const char **lines, int n, int p, int ng, int rg, int l, int chain)
{
	struct xm m;
	char text[256] = "", cmd[128], feed[4096] = "", exp[512] = "", pre[512];
	int ids[XM_MAXLN], nids = 0, i, b, e, execs = 0, not = ng != 0;
	char *got;
	/* real side: reset the buffer, registers and position */
	for (i = 0; i < n; i++) {
		strcat(text, lines[i]);
		strcat(text, "\n");
	}
	strcpy(pre, text);
	lbuf_edit(xb, text, 0, lbuf_len(xb));
	lbuf_modified(xb);
	reg_put('a', "p\nq\n", 1);
	reg_put(0, "u\n", 1);
	xrow = 0;
	xm_init(&m, lines, n);
	snprintf(m.reg[1], sizeof(m.reg[1]), "p\nq\n");
	m.reg_set[1] = 1;
	m.reg_ln[1] = 1;
	snprintf(m.reg[0], sizeof(m.reg[0]), "u\n");
	m.reg_set[0] = 1;
	/* reference */
	if (rg <= 1) {
		b = 0;
		e = n - 1;
	} else if (rg == 2) {
		b = 1;
		e = 2;
	} else {
		b = 1;
		e = n - 1;
	}
	if (b > e || e >= n) {
		nids = -1;		/* the range does not resolve: the global is rejected */
	} else {
		for (i = b; i <= e; i++)
			ids[nids++] = m.ln[i].id;
		for (i = 0; i < nids; i++) {
			int idx = xm_find_id(&m, ids[i]);
			if (idx < 0)
				continue;
			m.cur = idx;
			if (pm(p, m.ln[idx].s) != not) {
				execs++;
				if (exec_list(&m, l))
					break;
			}
		}
	}
	for (i = 0; i < m.n; i++) {
		strcat(exp, m.ln[i].s);
		strcat(exp, "\n");
	}
	/* real */
	snprintf(cmd, sizeof(cmd), "%s%s/%s/%s", ranges[rg], negs[ng], pats[p], list_txt[l]);
	for (i = 0; i < execs * list_blocks[l]; i++) {
		strcat(feed, list_block_text[l]);
		strcat(feed, ".\n");
	}
	nvx_pend_pos = nvx_pend_len = 0;
	nvx_feed(feed, -1);
	starved = 0;
	nvx_exout_reset();
	if (chain == 2) {
		/* globals that are rejected (pattern that does not compile, range that does not resolve) leave
		 * nothing behind: the global under test runs as it would without them */
		ex_command("g/(a/s/$/?/");
		ex_command("v/a{3,1}/d");
		ex_command("99g/a/d");
		xrow = 0;
	}
	ex_command(cmd);
	n_glob++;
	n_exec_total += execs;
	got = lbuf_cp(xb, 0, lbuf_len(xb));
#define DESC "kind=global buffer=\"%s\" cmd=\":%s\""
	if (strcmp(got, exp)) {
		nv_viol("c15-result", DESC ": buffer \"%s\", reference \"%s\" (%d executions)", nv_esc(pre, -1), nv_esc(cmd, -1), nv_esc(got, -1), nv_esc(exp, -1), execs);
	} else if (starved || nvx_pend_pos < nvx_pend_len) {
		nv_viol("c15-executions", DESC ": the command list ran %s than the %d times the reference runs it (text blocks %s)", nv_esc(pre, -1), nv_esc(cmd, -1),
			starved ? "more often" : "less often", execs, starved ? "ran out" : "left over");
	} else if (chain == 2) {
		/* result and executions compared above: that is all for this mode */
	} else if (chain) {
		static const char *follow[] = {"2,3v/zzz/s/$/!/", "%v/zzz/s/$/!/"};
		int f;
		for (f = 0; f < 2; f++) {
			char exp2[512] = "";
			char *got2;
			int fb = f == 0 ? 1 : 0, fe = f == 0 ? 2 : m.n - 1;
			if (fe < m.n && fb <= fe)
				for (i = fb; i <= fe; i++)
					strncat(m.ln[i].s, "!", XM_LNSZ - strlen(m.ln[i].s) - 1);
			for (i = 0; i < m.n; i++) {
				strcat(exp2, m.ln[i].s);
				strcat(exp2, "\n");
			}
			ex_command((char *) follow[f]);
			n_exec_total += fe < m.n && fb <= fe ? fe - fb + 1 : 0;
			got2 = lbuf_cp(xb, 0, lbuf_len(xb));
			if (strcmp(got2, exp2)) {
				nv_viol("c15-followup", DESC " then \":%s\": buffer \"%s\", reference \"%s\" (a later global must visit exactly its own lines)",
					nv_esc(pre, -1), nv_esc(cmd, -1), follow[f], nv_esc(got2, -1), nv_esc(exp2, -1));
				free(got2);
				break;
			}
			free(got2);
		}
	} else if (strcmp(exp, pre)) {
		/* one undo restores the text before the global */
		char *und;
		n_changed++;
		if (trace_every && (n_glob % trace_every) == 11) {
			char inp[6000];
			snprintf(inp, sizeof(inp), "rs a\np\nq\n.\nrs\nu\n.\n1\n%s\n%sw! out\nu\nw! out2\nq!\n", cmd, feed);
			nv_trace_ex("", "f", pre, inp, "out", exp, "out2", pre);
		}
		ex_command("u");
		und = lbuf_cp(xb, 0, lbuf_len(xb));
		if (strcmp(und, pre))
			nv_viol("c15-undo", DESC ": after one undo the buffer is \"%s\", before the global it was \"%s\"", nv_esc(pre, -1), nv_esc(cmd, -1), nv_esc(und, -1), nv_esc(pre, -1));
		free(und);
	}
	free(got);
	nvx_pend_pos = nvx_pend_len = 0;
}

static int maxlines;
static long cases_since_clear;
static void run_case(long j)
{
	long i = j * nv_nshards + nv_shard;
	int l = i % NLIST, p = (i / NLIST) % 4;
	int ng, rg, n;
	n_glob = n_changed = n_exec_total = 0;
	nv_guard(800, "c15-hang", "pattern=/%s/ list=\"%s\"", pats[p], list_txt[l]);
	for (n = 1; n <= maxlines; n++) {
		long cnt = 1, k;
		int q;
		for (q = 0; q < n; q++)
			cnt *= 4;
		for (k = 0; k < cnt; k++) {
			const char *lines[8];
			long v = k;
			for (q = 0; q < n; q++) {
				lines[q] = contents[v % 4];
				v /= 4;
			}
			for (ng = 0; ng < 3; ng++)
				for (rg = 0; rg < 4; rg++) {
					one_case(lines, n, p, ng, rg, l, 0);
					one_case(lines, n, p, ng, rg, l, 1);
					if (rg == 0)
						one_case(lines, n, p, ng, rg, l, 2);
					if (++cases_since_clear > 500) {
						lbuf_saved(xb, 1);
						cases_since_clear = 0;
					}
				}
		}
	}
	nv_stat("globals", n_glob);
	nv_stat("states", n_glob);
	nv_stat("transitions", n_glob + n_exec_total);
	nv_stat("evaluations", n_glob);
	nv_stat("command_list_executions", n_exec_total);
	nv_stat("distinct_nontrivial", n_changed);
	if (j == 0 && nv_shard == 0)
		nv_sample("buffer \"a|b|ab||a\" cmd=\":2,$g/a/.,+1d\": buffer after the global vs reference with line identities, number of command-list executions (text blocks consumed), then one :u must restore the text");
}

static void desc_case(long j, char *buf, int len)
{
	long i = j * nv_nshards + nv_shard;
	snprintf(buf, len, ":g with pattern /%s/ and command list \"%s\" (some buffer / range of the enumeration)", pats[(i / NLIST) % 4], list_txt[i % NLIST]);
}

int main(int argc, char **argv)
{
	static char *files[] = {"f", NULL};
	long total = NLIST * 4, my_n;
	char errpath[512];
	nv_init(argc, argv);
	maxlines = atoi(nv_arg(argc, argv, "lines", nv_thorough ? "6" : "4"));
	trace_every = atoi(nv_arg(argc, argv, "trace", nv_thorough ? "9973" : "1009"));
	vfs_put("f", "x\n", -1);
	dir_init();
	syn_init();
	if (ex_init(files)) {
		nv_err("ex_init failed");
		return 2;
	}
	my_n = (total - nv_shard + nv_nshards - 1) / nv_nshards;
	snprintf(errpath, sizeof(errpath), "%s.err", nv_arg(argc, argv, "out", "c15"));
	nv_forkloop(my_n, run_case, desc_case, "c15-memory", errpath);
	nv_stat("max:buffer_lines", maxlines);
	return nv_finish();
}
