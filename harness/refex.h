/*
 * ref_ex: reference line-editor semantics (DESIGN.md appendix B), 0-based, lines carry identities.
 * Commands are structured values; refex_print() renders the ex text fed to the real editor and
 * refex_exec() applies the reference semantics to the model.
 */
#ifndef REFEX_H
#define REFEX_H
#include <stdio.h>
#include <string.h>
#include <stdlib.h>

#define XM_MAXLN 40
#define XM_LNSZ 40
#define XM_NREG 12	/* 0 unnamed, 1 'a', 2 'b', 3..11 = '1'..'9' */

struct xline { int id; char s[XM_LNSZ]; };	/* s without the newline */
struct xm {
	struct xline ln[XM_MAXLN];
	int n;
	int cur;		/* current line, 0-based; 0 in an empty buffer */
	int mark[3];		/* line id of marks a, b, c; -1 unset */
	char reg[XM_NREG][160];
	int reg_set[XM_NREG];
	int reg_ln[XM_NREG];
	int nextid;
	char out[1024];		/* what the command prints (lines joined, each with newline) */
	int unsure_cur;		/* the reference leaves the current line open after this command */
	char lastpat[16];	/* the last non-empty pattern used in an address; an empty pattern reuses it */
	int has_lastpat;
	int modified;		/* buffer changed since it was loaded: 0 no, 1 yes, 2 not known to the reference
				 * (an accepted text command that left the lines as they were may or may not count) */
};

enum { XA_NONE, XA_NUM, XA_DOT, XA_DOLLAR, XA_MARK, XA_FWD, XA_BWD };
struct xaddr {
	int type;
	int num;		/* XA_NUM: the number as typed (1-based, 0 allowed) */
	int mark;		/* XA_MARK: 0..2 */
	const char *pat;	/* XA_FWD / XA_BWD: literal text */
	int has_off, bare_off;	/* offset present; bare '+' or '-' (no digits) */
	int off;		/* signed offset */
	int has_off2, bare_off2, off2;	/* a second offset following the first (offsets add up) */
};

enum { XC_A, XC_I, XC_C, XC_D, XC_Y, XC_PU, XC_R, XC_P, XC_EQ, XC_K, XC_RS, XC_AT, XC_FILT, XC_NULL, XC_S, XC_G };
struct xcmd {
	int naddr;		/* 0, 1, 2; -1 = '%' */
	struct xaddr a1, a2;
	int sep;		/* ',' or ';' */
	int cmd;
	int reg;		/* register argument: 0 none, else model register index (1 'a', 2 'b'), upper: 'A' => 101 */
	const char *text;	/* a/i/c/rs text block (lines with newlines), may be "" */
	const char *file;	/* r */
	int markname;		/* k: 0..2 */
	const char *arg;	/* free-form argument (s/../../, g/../cmd, filter command) */
};

/* ---- rendering -------------------------------------------------------------------------------------- */
static int xaddr_print(const struct xaddr *a, char *b)
{
	int o = 0;
	switch (a->type) {
	case XA_NUM: o += sprintf(b + o, "%d", a->num); break;
	case XA_DOT: o += sprintf(b + o, "."); break;
	case XA_DOLLAR: o += sprintf(b + o, "$"); break;
	case XA_MARK: o += sprintf(b + o, "'%c", 'a' + a->mark); break;
	case XA_FWD: o += sprintf(b + o, "/%s/", a->pat); break;
	case XA_BWD: o += sprintf(b + o, "?%s?", a->pat); break;
	}
	if (a->has_off) {
		if (a->bare_off)
			o += sprintf(b + o, "%c", a->off < 0 ? '-' : '+');
		else
			o += sprintf(b + o, "%c%d", a->off < 0 ? '-' : '+', abs(a->off));
	}
	if (a->has_off2) {
		if (a->bare_off2)
			o += sprintf(b + o, "%c", a->off2 < 0 ? '-' : '+');
		else
			o += sprintf(b + o, "%c%d", a->off2 < 0 ? '-' : '+', abs(a->off2));
	}
	b[o] = '\0';
	return o;
}

static const char *xreg_name(int reg)
{
	static char b[4];
	if (reg >= 100)
		sprintf(b, "%c", 'A' + (reg - 101));
	else if (reg >= 1 && reg <= 2)
		sprintf(b, "%c", 'a' + reg - 1);
	else if (reg >= 3)
		sprintf(b, "%c", '1' + reg - 3);
	else
		b[0] = '\0';
	return b;
}

/* the ex input for the command, including its text block */
static int refex_print(const struct xcmd *c, char *b)
{
	int o = 0;
	static const char *names[] = {"a", "i", "c", "d", "y", "pu", "r", "p", "=", "k", "rs", "@", "!", "", "s", "g"};
	if (c->naddr == -1)
		o += sprintf(b + o, "%%");
	if (c->naddr >= 1)
		o += xaddr_print(&c->a1, b + o);
	if (c->naddr == 2) {
		b[o++] = c->sep;
		o += xaddr_print(&c->a2, b + o);
	}
	o += sprintf(b + o, "%s", names[c->cmd]);
	if (c->cmd == XC_D || c->cmd == XC_Y || c->cmd == XC_PU || c->cmd == XC_RS || c->cmd == XC_AT)
		if (c->reg)
			o += sprintf(b + o, " %s", xreg_name(c->reg));
	if (c->cmd == XC_R)
		o += sprintf(b + o, " %s", c->file);
	if (c->cmd == XC_K)
		o += sprintf(b + o, " %c", 'a' + c->markname);
	if (c->cmd == XC_FILT || c->cmd == XC_S || c->cmd == XC_G)
		o += sprintf(b + o, "%s", c->arg);
	b[o++] = '\n';
	if (c->cmd == XC_A || c->cmd == XC_I || c->cmd == XC_C || c->cmd == XC_RS)
		o += sprintf(b + o, "%s.\n", c->text);
	b[o] = '\0';
	return o;
}

/* ---- model ------------------------------------------------------------------------------------------- */
static void xm_init(struct xm *m, const char **lines, int n)
{
	int i;
	memset(m, 0, sizeof(*m));
	for (i = 0; i < n; i++) {
		m->ln[i].id = i + 1;
		snprintf(m->ln[i].s, XM_LNSZ, "%s", lines[i]);
	}
	m->n = n;
	m->nextid = n + 1;
	m->mark[0] = m->mark[1] = m->mark[2] = -1;
}

static int xm_find_id(const struct xm *m, int id)
{
	int i;
	for (i = 0; i < m->n; i++)
		if (m->ln[i].id == id)
			return i;
	return -1;
}

/* resolve one address to a 0-based line, or -1000 on failure; -1 means "line 0" (before the first) */
#define XA_FAIL (-1000)
static int xm_addr(const struct xm *m, const struct xaddr *a, int cur)
{
	int n = cur, i;
	switch (a->type) {
	case XA_NONE:
	case XA_DOT:
		n = cur;
		break;
	case XA_NUM:
		n = a->num - 1;
		break;
	case XA_DOLLAR:
		n = m->n - 1;
		break;
	case XA_MARK:
		if (m->mark[a->mark] < 0)
			return XA_FAIL;
		n = xm_find_id(m, m->mark[a->mark]);
		if (n < 0)
			return XA_FAIL;
		break;
	case XA_FWD:
		if (!a->pat[0] && !m->has_lastpat)
			return XA_FAIL;		/* no previous pattern */
		for (i = cur + 1; i < m->n; i++)
			if (strstr(m->ln[i].s, a->pat[0] ? a->pat : m->lastpat))
				break;
		if (i >= m->n)
			return XA_FAIL;
		n = i;
		break;
	case XA_BWD:
		if (!a->pat[0] && !m->has_lastpat)
			return XA_FAIL;
		for (i = cur - 1; i >= 0; i--)
			if (i < m->n && strstr(m->ln[i].s, a->pat[0] ? a->pat : m->lastpat))
				break;
		if (i < 0)
			return XA_FAIL;
		n = i;
		break;
	}
	if (a->has_off)
		n += a->off;
	if (a->has_off2)
		n += a->off2;
	return n;
}

/* resolve an address as part of a command: a non-empty pattern becomes the remembered one (also when it is not found) */
static int xm_addr_rec(struct xm *m, const struct xaddr *a, int cur)
{
	if ((a->type == XA_FWD || a->type == XA_BWD) && a->pat[0]) {
		snprintf(m->lastpat, sizeof(m->lastpat), "%s", a->pat);
		m->has_lastpat = 1;
	}
	return xm_addr(m, a, cur);
}

static int xreg_index(int reg)
{
	return reg >= 100 ? reg - 100 : reg;
}

/* store text in a register; line-wise text rotates the numbered registers */
static void xm_regput(struct xm *m, int reg, const char *text, int lnmode)
{
	int idx = xreg_index(reg), i;
	if ((lnmode || strchr(text, '\n')) && (reg == 0 || (idx >= 1 && idx <= 2))) {
		for (i = 8; i > 0; i--)
			if (m->reg_set[2 + i]) {
				strcpy(m->reg[2 + i + 1], m->reg[2 + i]);
				m->reg_set[2 + i + 1] = 1;
				m->reg_ln[2 + i + 1] = m->reg_ln[2 + i];
			}
		snprintf(m->reg[3], sizeof(m->reg[3]), "%s", text);
		m->reg_set[3] = 1;
		m->reg_ln[3] = lnmode;
	}
	if (reg >= 100 && m->reg_set[idx]) {
		strncat(m->reg[idx], text, sizeof(m->reg[idx]) - strlen(m->reg[idx]) - 1);
	} else {
		snprintf(m->reg[idx], sizeof(m->reg[idx]), "%s", text);
	}
	m->reg_set[idx] = 1;
	m->reg_ln[idx] = lnmode;
}

/* splice: replace lines [b, e) by the lines of text (each ending in newline); returns lines inserted */
static int xm_splice(struct xm *m, int b, int e, const char *text)
{
	struct xline tail[XM_MAXLN];
	int nt = m->n - e, k = 0;
	memcpy(tail, m->ln + e, nt * sizeof(tail[0]));
	m->n = b;
	while (text && *text) {
		const char *nl = strchr(text, '\n');
		int l = nl ? nl - text : (int) strlen(text);
		if (m->n >= XM_MAXLN - 1)
			break;
		m->ln[m->n].id = m->nextid++;
		snprintf(m->ln[m->n].s, XM_LNSZ, "%.*s", l, text);
		m->n++;
		k++;
		text = nl ? nl + 1 : text + l;
	}
	memcpy(m->ln + m->n, tail, nt * sizeof(tail[0]));
	m->n += nt;
	return k;
}

static void xm_range_text(const struct xm *m, int b, int e, char *out, int max)
{
	int i, o = 0;
	out[0] = '\0';
	for (i = b; i <= e && i < m->n; i++)
		o += snprintf(out + o, max - o, "%s\n", m->ln[i].s);
}

/*
 * execute; returns 0 when accepted, 1 when rejected (model unchanged).
 * files: callback returning the content of a file for :r, or NULL when it does not exist.
 */
static int refex_exec_core(struct xm *m, const struct xcmd *c, const char *(*filetext)(const char *));
static int refex_exec(struct xm *m, const struct xcmd *c, const char *(*filetext)(const char *))
{
	int ids[XM_MAXLN], n = m->n, i, r, same;
	for (i = 0; i < n; i++)
		ids[i] = m->ln[i].id;
	r = refex_exec_core(m, c, filetext);
	if (r || c->cmd == XC_P || c->cmd == XC_EQ || c->cmd == XC_K || c->cmd == XC_Y || c->cmd == XC_RS)
		return r;
	same = n == m->n;
	for (i = 0; same && i < n; i++)
		same = ids[i] == m->ln[i].id;
	if (!same)
		m->modified = 1;
	else if (m->modified == 0)
		m->modified = 2;
	return r;
}

static int refex_exec_core(struct xm *m, const struct xcmd *c, const char *(*filetext)(const char *))
{
	int b, e, cur = m->cur, k;
	char buf[1024];
	int adds = c->cmd == XC_A || c->cmd == XC_R || c->cmd == XC_PU || c->cmd == XC_I;
	m->out[0] = '\0';
	m->unsure_cur = 0;
	/* addresses */
	if (c->naddr == -1) {
		b = 0;
		e = m->n - 1;
		if (m->n == 0)
			return 1;
	} else if (c->naddr == 0) {
		b = e = cur;
		if (m->n == 0 && !adds && c->cmd != XC_C && c->cmd != XC_RS)
			return 1;
		if (m->n == 0) {	/* adding text to an empty buffer */
			b = 0;
			e = -1;
		} else if (cur >= m->n) {	/* current line one past the end (listed deviation c06-current-past-end) */
			if (!adds)
				return 1;
			b = m->n;
			e = m->n - 1;
		}
	} else {
		b = xm_addr_rec(m, &c->a1, cur);
		if (b == XA_FAIL)
			return 1;
		e = b;
		if (c->naddr == 2) {
			int c2 = cur;
			if (c->sep == ';') {
				if (b < 0 || b >= m->n)
					return 1;
				c2 = b;
				m->cur = b;	/* ';' makes the first address the current line, and it stays so */
				cur = b;
			}
			e = xm_addr_rec(m, &c->a2, c2);
			if (e == XA_FAIL)
				return 1;
		}
		if (c->naddr == 1 && b == -1 && adds && c->cmd != XC_I) {
			/* address 0: before the first line */
		} else if (c->cmd == XC_RS) {
			/* takes no address */
		} else if (b < 0 || e < b || e >= m->n) {
			return 1;
		}
	}
	switch (c->cmd) {
	case XC_A:
		k = xm_splice(m, e + 1, e + 1, c->text);
		m->cur = k ? e + k : (e < 0 ? 0 : e);
		return 0;
	case XC_I:
		k = xm_splice(m, b, b, c->text);
		m->cur = k ? b + k - 1 : (b > 0 ? b - 1 : 0);
		return 0;
	case XC_C:
		if (m->n == 0)
			e = -1;
		k = xm_splice(m, b, e + 1, c->text);
		m->cur = k ? b + k - 1 : (b > 0 ? b - 1 : 0);
		if (m->n == 0)
			m->cur = 0;
		return 0;
	case XC_D:
		xm_range_text(m, b, e, buf, sizeof(buf));
		xm_regput(m, c->reg, buf, 1);
		xm_splice(m, b, e + 1, NULL);
		m->cur = b < m->n ? b : (m->n ? m->n - 1 : 0);
		return 0;
	case XC_Y:
		xm_range_text(m, b, e, buf, sizeof(buf));
		xm_regput(m, c->reg, buf, 1);
		return 0;
	case XC_PU:
		if (!m->reg_set[xreg_index(c->reg)])
			return 1;
		k = xm_splice(m, e + 1, e + 1, m->reg[xreg_index(c->reg)]);
		m->cur = k ? e + k : (e < 0 ? 0 : e);
		return 0;
	case XC_R: {
		const char *t = filetext(c->file);
		if (!t)
			return 1;
		k = xm_splice(m, e + 1, e + 1, t);
		m->cur = k ? e + k : (e < 0 ? 0 : e);
		return 0;
	}
	case XC_P:
		xm_range_text(m, b, e, m->out, sizeof(m->out));
		m->cur = e;
		return 0;
	case XC_EQ:
		snprintf(m->out, sizeof(m->out), "%d\n", e + 1);
		return 0;
	case XC_K:
		m->mark[c->markname] = m->ln[e].id;
		return 0;
	case XC_RS:
		xm_regput(m, c->reg, c->text, 1);
		return 0;
	case XC_FILT: {
		/* a filter is refused while the buffer has unsaved changes; c->arg is "tr o 0" */
		char up[1024];
		int i;
		if (m->modified)
			return 1;
		if (!strcmp(c->arg, "sed d")) {		/* a filter that reads its input and prints nothing: the lines go */
			xm_splice(m, b, e + 1, "");
			return 0;
		}
		xm_range_text(m, b, e, up, sizeof(up));
		for (i = 0; up[i]; i++)
			if (up[i] == 'o')
				up[i] = '0';
		xm_splice(m, b, e + 1, up);
		return 0;
	}
	case XC_AT: {
		/* execute a register as ex commands with the first addressed line as the current line;
		 * the reference interprets the one content the harness stores for this purpose, "d" */
		struct xcmd d;
		int idx = xreg_index(c->reg);
		if (!m->reg_set[idx] || strcmp(m->reg[idx], "d\n"))
			return 1;
		m->cur = b;
		memset(&d, 0, sizeof(d));
		d.cmd = XC_D;
		return refex_exec(m, &d, filetext);
	}
	}
	return 1;
}
#endif
