/* C06: ex line commands change exactly the addressed lines (lock-step with a reference line editor) */
#include "nvx.h"
#include "exh.h"
#include "refex.h"

static struct xcmd ops[1600];
static char opname[1600][48];
static int nops;
static int reduced[64], nreduced;
static int use_reduced;

static struct xm model;		/* advanced in lock-step; inherited by fork */
static struct xm pre_model;
static int model_rejected;
static char cfg_name[96];
static int cfg_hashseed;

static const char *buflines[][4] = {
	{NULL, NULL, NULL, NULL},
	{"ax one", NULL, NULL, NULL},
	{"ax one", "by two", "ax three", NULL},
	{"top", "ax one", "by two", "ax three"},
};
static const int bufn[] = {0, 1, 3, 4};

static const char *filetext(const char *name)
{
	if (!strcmp(name, "f0"))
		return "";
	if (!strcmp(name, "f1"))
		return "file one\n";
	if (!strcmp(name, "f2"))
		return "file A\nfile B\n";
	return NULL;
}

static struct xaddr A(int type, int num, int mark, const char *pat, int has_off, int bare, int off)
{
	struct xaddr a = {type, num, mark, pat, has_off, bare, off};
	return a;
}

static void add_op(struct xcmd c, int red)
{
	char txt[256];
	int i;
	refex_print(&c, txt);
	for (i = 0; txt[i] && i < 46; i++)
		opname[nops][i] = txt[i] == '\n' ? '|' : txt[i];
	opname[nops][i] = '\0';
	if (red && nreduced < 64)
		reduced[nreduced++] = nops;
	ops[nops++] = c;
}

static void build_ops(void)
{
	struct { int naddr; struct xaddr a1, a2; int sep; int red; } af[64];
	int naf = 0, i, j;
	struct xaddr none = A(XA_NONE, 0, 0, NULL, 0, 0, 0);
#define AF1(x, r) do { af[naf].naddr = 1; af[naf].a1 = (x); af[naf].a2 = none; af[naf].sep = ','; af[naf].red = r; naf++; } while (0)
#define AF2(x, y, s, r) do { af[naf].naddr = 2; af[naf].a1 = (x); af[naf].a2 = (y); af[naf].sep = s; af[naf].red = r; naf++; } while (0)
	af[naf].naddr = 0; af[naf].a1 = af[naf].a2 = none; af[naf].sep = ','; af[naf].red = 1; naf++;
	af[naf].naddr = -1; af[naf].a1 = af[naf].a2 = none; af[naf].sep = ','; af[naf].red = 1; naf++;
	AF1(A(XA_NUM, 0, 0, NULL, 0, 0, 0), 1);
	AF1(A(XA_NUM, 1, 0, NULL, 0, 0, 0), 0);
	AF1(A(XA_NUM, 2, 0, NULL, 0, 0, 0), 1);
	AF1(A(XA_NUM, 9, 0, NULL, 0, 0, 0), 0);
	AF1(A(XA_DOT, 0, 0, NULL, 0, 0, 0), 0);
	AF1(A(XA_DOLLAR, 0, 0, NULL, 0, 0, 0), 1);
	AF1(A(XA_MARK, 0, 0, NULL, 0, 0, 0), 1);
	AF1(A(XA_MARK, 0, 1, NULL, 0, 0, 0), 0);
	AF1(A(XA_FWD, 0, 0, "ax", 0, 0, 0), 1);
	AF1(A(XA_BWD, 0, 0, "ax", 0, 0, 0), 0);
	AF1(A(XA_FWD, 0, 0, "zz", 0, 0, 0), 0);
	AF1(A(XA_FWD, 0, 0, "", 0, 0, 0), 1);		/* the empty pattern: the remembered one, in the direction of the delimiters */
	AF1(A(XA_BWD, 0, 0, "", 0, 0, 0), 1);
	AF1(A(XA_FWD, 0, 0, "ax", 1, 0, 1), 0);
	AF1(A(XA_DOT, 0, 0, NULL, 1, 0, 1), 0);
	AF1(A(XA_DOLLAR, 0, 0, NULL, 1, 0, -1), 0);
	AF1(A(XA_NONE, 0, 0, NULL, 1, 1, 1), 1);
	AF1(A(XA_NONE, 0, 0, NULL, 1, 1, -1), 0);
	AF1(A(XA_NONE, 0, 0, NULL, 1, 0, 2), 0);
	AF1(A(XA_MARK, 0, 0, NULL, 1, 0, -1), 0);
	AF2(A(XA_NUM, 1, 0, NULL, 0, 0, 0), A(XA_NUM, 2, 0, NULL, 0, 0, 0), ',', 1);
	AF2(A(XA_NUM, 2, 0, NULL, 0, 0, 0), A(XA_NUM, 3, 0, NULL, 0, 0, 0), ',', 0);
	AF2(A(XA_NUM, 1, 0, NULL, 0, 0, 0), A(XA_DOLLAR, 0, 0, NULL, 0, 0, 0), ',', 0);
	AF2(A(XA_DOT, 0, 0, NULL, 0, 0, 0), A(XA_DOLLAR, 0, 0, NULL, 0, 0, 0), ',', 0);
	AF2(A(XA_DOT, 0, 0, NULL, 0, 0, 0), A(XA_NONE, 0, 0, NULL, 1, 0, 1), ',', 0);
	AF2(A(XA_NUM, 1, 0, NULL, 0, 0, 0), A(XA_NONE, 0, 0, NULL, 1, 0, 1), ';', 1);
	AF2(A(XA_NUM, 2, 0, NULL, 0, 0, 0), A(XA_NONE, 0, 0, NULL, 1, 0, 1), ';', 0);
	AF2(A(XA_FWD, 0, 0, "ax", 0, 0, 0), A(XA_NONE, 0, 0, NULL, 1, 0, 1), ';', 0);
	AF2(A(XA_NUM, 3, 0, NULL, 0, 0, 0), A(XA_NUM, 1, 0, NULL, 0, 0, 0), ',', 0);
	AF2(A(XA_MARK, 0, 0, NULL, 0, 0, 0), A(XA_DOLLAR, 0, 0, NULL, 0, 0, 0), ',', 0);
	AF2(A(XA_NUM, 1, 0, NULL, 0, 0, 0), A(XA_NUM, 9, 0, NULL, 0, 0, 0), ',', 0);
	AF2(A(XA_NUM, 2, 0, NULL, 0, 0, 0), A(XA_FWD, 0, 0, "ax", 0, 0, 0), ';', 0);
	/* several offsets add up: $--  1++  3-+2  .+1-1 */
	{
		struct xaddr a2;
		a2 = A(XA_DOLLAR, 0, 0, NULL, 1, 1, -1); a2.has_off2 = 1; a2.bare_off2 = 1; a2.off2 = -1; AF1(a2, 1);
		a2 = A(XA_NUM, 1, 0, NULL, 1, 1, 1); a2.has_off2 = 1; a2.bare_off2 = 1; a2.off2 = 1; AF1(a2, 0);
		a2 = A(XA_NUM, 3, 0, NULL, 1, 1, -1); a2.has_off2 = 1; a2.bare_off2 = 0; a2.off2 = 2; AF1(a2, 0);
		a2 = A(XA_DOT, 0, 0, NULL, 1, 0, 1); a2.has_off2 = 1; a2.bare_off2 = 0; a2.off2 = -1; AF1(a2, 0);
	}
	/* a search that fails stays failed whatever offset follows it */
	AF1(A(XA_FWD, 0, 0, "zz", 1, 0, -1), 0);
	AF1(A(XA_BWD, 0, 0, "zz", 1, 0, 1), 0);
	AF1(A(XA_BWD, 0, 0, "zz", 1, 0, 2), 0);
	for (i = 0; i < naf; i++) {
		static const char *texts[] = {"", "x\n", "x\ny\n"};
		struct xcmd c;
		memset(&c, 0, sizeof(c));
		c.naddr = af[i].naddr;
		c.a1 = af[i].a1;
		c.a2 = af[i].a2;
		c.sep = af[i].sep;
		for (j = 0; j < 3; j++) {
			c.text = texts[j];
			c.cmd = XC_A; add_op(c, af[i].red && j == 1);
			c.cmd = XC_I; add_op(c, af[i].red && j == 2 && i < 4);
			c.cmd = XC_C; add_op(c, af[i].red && j == 0 && i < 8);
		}
		c.text = NULL;
		c.cmd = XC_D; c.reg = 0; add_op(c, af[i].red);
		c.cmd = XC_D; c.reg = 1; add_op(c, 0);
		c.cmd = XC_D; c.reg = 101; add_op(c, 0);
		c.cmd = XC_Y; c.reg = 0; add_op(c, 0);
		c.cmd = XC_Y; c.reg = 2; add_op(c, af[i].red && i < 6);
		c.cmd = XC_PU; c.reg = 0; add_op(c, af[i].red && i < 10);
		c.cmd = XC_PU; c.reg = 1; add_op(c, 0);
		c.cmd = XC_PU; c.reg = 2; add_op(c, 0);
		c.reg = 0;
		c.cmd = XC_R; c.file = "f2"; add_op(c, 0);
		c.cmd = XC_R; c.file = "f1"; add_op(c, 0);
		c.cmd = XC_R; c.file = "f0"; add_op(c, 0);
		c.cmd = XC_R; c.file = "nofile"; add_op(c, 0);
		c.file = NULL;
		c.cmd = XC_P; add_op(c, af[i].red && i < 12);
		c.cmd = XC_EQ; if (af[i].naddr != 0) add_op(c, 0);
		c.cmd = XC_K; c.markname = 0; add_op(c, af[i].red && i < 9);
		c.cmd = XC_K; c.markname = 2; add_op(c, 0);
		c.cmd = XC_AT; c.reg = 2; add_op(c, af[i].red && i < 8);
		c.reg = 0;
		c.cmd = XC_FILT; c.arg = "tr o 0"; add_op(c, af[i].red && i < 8);
		c.cmd = XC_FILT; c.arg = "sed d"; add_op(c, 0);
		c.arg = NULL;
	}
	{
		struct xcmd c;
		memset(&c, 0, sizeof(c));
		c.cmd = XC_RS; c.reg = 2; c.text = "rb\n"; add_op(c, 1);
		c.cmd = XC_RS; c.reg = 0; c.text = "u1\nu2\n"; add_op(c, 0);
	}
}

/* ---- comparison -------------------------------------------------------------------------------------------- */
static int regchar(int idx)
{
	return idx == 0 ? 0 : idx <= 2 ? 'a' + idx - 1 : '1' + idx - 3;
}

static int compare_state(const char *when)
{
	int i, bad = 0;
	char got[1024] = "", exp[1024] = "";
	int o1 = 0, o2 = 0;
	char *out = nvx_exout ? nvx_exout : "";
	for (i = 0; i < lbuf_len(xb) && o1 < 900; i++)
		o1 += snprintf(got + o1, sizeof(got) - o1, "%s", lbuf_get(xb, i));
	for (i = 0; i < model.n; i++)
		o2 += snprintf(exp + o2, sizeof(exp) - o2, "%s\n", model.ln[i].s);
	if (strcmp(got, exp)) {
		if (model_rejected)
			nx_viol("c06-rejected-changed", "%s: the address does not resolve, yet the buffer changed: \"%s\" (was \"%s\")", when, nv_esc(got, -1), nv_esc(exp, -1));
		else
			nx_viol("c06-buffer", "%s: buffer \"%s\", reference \"%s\"", when, nv_esc(got, -1), nv_esc(exp, -1));
		return 1;
	}
	if (!model_rejected && strcmp(out, model.out) && !strstr(out, "[r]")) {
		nx_viol("c06-output", "%s: printed \"%s\", reference \"%s\"", when, nv_esc(out, -1), nv_esc(model.out, -1));
		bad = 1;
	}
	if (!model_rejected && strstr(out, "[r]") && model.out[0]) {
		nx_viol("c06-output", "%s: printed \"%s\", reference \"%s\"", when, nv_esc(out, -1), nv_esc(model.out, -1));
		bad = 1;
	}
	/* marks: only those whose line still exists in the reference */
	for (i = 0; i < 3; i++) {
		int pos = -1, off, r;
		r = lbuf_jump(xb, 'a' + i, &pos, &off);
		if (model.mark[i] >= 0) {
			int want = xm_find_id(&model, model.mark[i]);
			if (want >= 0 && (r || pos != want)) {
				if (model_rejected)
					nx_dev("c06-unresolved-accepted", "%s: the address does not resolve to an existing line but mark %c changed (now line %d, was line %d)", when, 'a' + i, r ? 0 : pos + 1, want + 1);
				else
					nx_viol("c06-mark", "%s: mark %c designates line %d, reference line %d (same line identity)", when, 'a' + i, r ? 0 : pos + 1, want + 1);
				bad = 1;
			}
		} else if (!r && !model_rejected) {
			nx_viol("c06-mark", "%s: mark %c is set to line %d but was never set", when, 'a' + i, pos + 1);
			bad = 1;
		}
	}
	/* registers */
	for (i = 0; i < XM_NREG && !bad; i++) {
		int ln = 0;
		char *r = reg_get(regchar(i), &ln);
		if (model_rejected) {
			/* a rejected command must not touch the registers */
			if ((r != NULL) != (pre_model.reg_set[i] != 0) || (r && strcmp(r, pre_model.reg[i]))) {
				nx_dev("c06-unresolved-accepted", "%s: the address does not resolve but register %c changed to \"%s\"", when, regchar(i) ? regchar(i) : '"', r ? nv_esc(r, -1) : "(unset)");
				return 1;
			}
			continue;
		}
		if ((r != NULL) != (model.reg_set[i] != 0) || (r && strcmp(r, model.reg[i]))) {
			nx_viol("c06-register", "%s: register %c holds \"%s\", reference \"%s\"", when, regchar(i) ? regchar(i) : '"', r ? nv_esc(r, -1) : "(unset)",
				model.reg_set[i] ? nv_esc(model.reg[i], -1) : "(unset)");
			bad = 1;
		}
	}
	/* current line */
	if (!bad && xrow != model.cur) {
		if (model_rejected)
			nx_dev("c06-unresolved-accepted", "%s: the address does not resolve to an existing line but the current line moved from %d to %d", when, model.cur + 1, xrow + 1);
		else if (xrow == lbuf_len(xb) && model.cur == lbuf_len(xb) - 1) {
			nx_dev("c06-current-past-end", "%s: current line is %d, one past the last line (reference: the last line, %d)", when, xrow + 1, model.cur + 1);
			model.cur = xrow;	/* follow the listed deviation so that the histories below it are still explored */
			return 0;
		}
		else
			nx_viol("c06-current", "%s: current line %d, reference %d", when, xrow + 1, model.cur + 1);
		bad = 1;
	}
	return bad;
}

static int nx_nops(void) { return use_reduced ? nreduced : nops; }
static int opidx(int k) { return use_reduced ? reduced[k] : k; }

static int state_bad;
static void pre_state(void)
{
	state_bad = 0;
	if (nx_depth > 0) {
		int k = opidx(nx_hist[nx_depth - 1]);
		pre_model = model;
		model_rejected = refex_exec(&model, &ops[k], filetext);
		if (model_rejected) {
			struct xm after = model;
			model = pre_model;
			model.cur = after.cur;		/* the effect of ';' stays */
			memcpy(model.lastpat, after.lastpat, sizeof(model.lastpat));	/* and so does the remembered pattern */
			model.has_lastpat = after.has_lastpat;
		}
		state_bad = compare_state(opname[k]);
		if (state_bad) {
			/* resynchronise is not possible: do not explore below a mismatch */
			nx_bound = nx_depth;
		}
	} else {
		model_rejected = 0;
		nvx_exout_reset();
		pre_model = model;
		state_bad = compare_state("initial configuration");
		/* the set-up script consists of commands of the alphabet (rs, k, a line number): a mismatch here
		 * is a violation like any other (reported above); nothing is explored below it */
		if (state_bad)
			nx_bound = 0;
	}
}

static void nx_at_state(void) { }

static const char *nx_op_name(int k) { return opname[opidx(k)]; }
static int nx_op_bytes(int k, char *buf, int max)
{
	(void) max;
	return refex_print(&ops[opidx(k)], buf);
}
static int nx_enabled(int k)
{
	struct xcmd *c = &ops[opidx(k)];
	int adds = c->cmd == XC_A || c->cmd == XC_I || c->cmd == XC_C || c->cmd == XC_PU || c->cmd == XC_R;
	int zero = c->naddr >= 1 && c->a1.type == XA_NUM && c->a1.num == 0 && !c->a1.has_off;
	/* conventions left open (DESIGN.md appendix B): 0i / 0c, and addressed text-adding commands in an empty buffer */
	if (zero && (c->cmd == XC_I || c->cmd == XC_C))
		return 0;
	if (model.n == 0 && adds && c->naddr != 0)
		return 0;
	/* @ b: only while register b holds the command line stored for it, and not with an address that
	 * evaluates to line 0 (known finding c06-unresolved-accepted) */
	if (c->cmd == XC_AT) {
		if (!model.reg_set[2] || strcmp(model.reg[2], "d\n") || zero || model.n == 0)
			return 0;
		if (c->naddr >= 1 && xm_addr(&model, &c->a1, model.cur) == -1)
			return 0;
	}
	/* a filter: not where the reference does not know whether the buffer counts as modified, and not with
	 * an address that evaluates to line 0 */
	if (c->cmd == XC_FILT) {
		if (model.modified == 2 || zero || model.n == 0)
			return 0;
		if (c->naddr == 0)	/* without an address ! runs a command and filters nothing */
			return 0;
		if (c->naddr >= 1 && xm_addr(&model, &c->a1, model.cur) == -1)
			return 0;
	}
	/* one-address commands are given at most one address (POSIX takes the last of two, neatvi's :a the first) */
	if ((c->cmd == XC_A || c->cmd == XC_I) && (c->naddr == 2 || c->naddr == -1))
		return 0;
	/* a mark whose line was deleted or replaced: what it designates afterwards is left open */
	{
		const struct xaddr *as[2] = {&c->a1, &c->a2};
		int q;
		for (q = 0; q < 2; q++)
			if (as[q]->type == XA_MARK && model.mark[as[q]->mark] >= 0 && xm_find_id(&model, model.mark[as[q]->mark]) < 0)
				return 0;
	}
	/* an address that evaluates to line 0 with i / c: same open convention as 0i / 0c */
	if ((c->cmd == XC_I || c->cmd == XC_C) && c->naddr == 1 && xm_addr(&model, &c->a1, model.cur) == -1)
		return 0;
	return 1;
}
static unsigned long long nx_state_hash(void) { return 0; }
static int nx_leaf_bytes(char *buf, int max)
{
	(void) max;
	strcpy(buf, "w! out\n.=\nq!\n");
	return strlen(buf);
}
static void nx_at_exit(void)
{
	if (!nx_in_leaf)
		nx_viol("c06-exit", "the editor exited on a line command%s", "");
}
static const char *nx_config_name(void) { return cfg_name; }

/* the explorer indexes operations 0..nx_nops(); map through the reduced table */
static int (*real_op_bytes)(int, char *, int);

static long cfg_counter;
static void run_config(int bi, int cur, int marka, int depth, int red)
{
	char *argv[] = {"vi", "-s", "-e", "f", NULL};
	char setup[512] = "", text[256] = "";
	int i;
	if ((cfg_counter++ % nv_nshards) != nv_shard)
		return;
	vfs_n = 0;
	for (i = 0; i < bufn[bi]; i++) {
		strcat(text, buflines[bi][i]);
		strcat(text, "\n");
	}
	vfs_put("f", text, -1);
	vfs_put("f0", "", -1);
	vfs_put("f1", "file one\n", -1);
	vfs_put("f2", "file A\nfile B\n", -1);
	xm_init(&model, buflines[bi], bufn[bi]);
	/* registers: unnamed = "un", a = "ra1 ra2" (both line-wise) */
	strcat(setup, "rs\nun\n.\nrs a\nra1\nra2\n.\nrs b\nd\n.\n");
	xm_regput(&model, 0, "un\n", 1);
	xm_regput(&model, 1, "ra1\nra2\n", 1);
	xm_regput(&model, 2, "d\n", 1);		/* b holds an ex command line, for @ b */
	if (marka >= 0) {
		sprintf(setup + strlen(setup), "%dka\n", marka + 1);
		model.mark[0] = model.ln[marka].id;
	}
	if (bufn[bi]) {
		sprintf(setup + strlen(setup), "%dk c\n%d\n", 1, cur + 1);
		model.mark[2] = model.ln[0].id;
		model.cur = cur;
	}
	snprintf(cfg_name, sizeof(cfg_name), "%dlines/cur=%d/mark_a=%d%s", bufn[bi], cur + 1, marka + 1, red ? "/reduced" : "");
	cfg_hashseed = bi * 100 + cur * 10 + marka;
	use_reduced = red;
	nx_bound = depth;
	snprintf(nx_cfg_args, sizeof(nx_cfg_args), "cfg=%d,%d,%d,%d", bi, cur, marka, red);
	nvx_feed(setup, -1);
	nx_run(4, argv);
	nvx_pend_pos = nvx_pend_len = 0;
	nv_stat("configurations", 1);
	nx_report();
}

int main(int argc, char **argv)
{
	int bi, cur, ma, d2;
	nv_init(argc, argv);
	nx_init(argc, argv, 1, 0);
	/* a filter that exits before it has read its input would kill the editor with SIGPIPE depending on
	 * timing (see C05); the filters used here read all of it, and the signal is ignored to be safe */
	signal(SIGPIPE, SIG_IGN);
	nx_pre_state = pre_state;
	nx_shard_level = -1;	/* configurations are distributed over the shards */
	nx_trace_every = atoi(nv_arg(argc, argv, "trace", nv_thorough ? "1499" : "127"));
	nx_trace_stdout = 1;
	setenv("EXINIT", "", 1);
	build_ops();
	(void) real_op_bytes;
	d2 = atoi(nv_arg(argc, argv, "depth2", nv_thorough ? "3" : "2"));
	if (nv_arg(argc, argv, "cfg", NULL)) {
		int red;
		sscanf(nv_arg(argc, argv, "cfg", "2,0,-1,0"), "%d,%d,%d,%d", &bi, &cur, &ma, &red);
		nx_shard_div = 1;
		cfg_counter = 0;
		nv_nshards = 1;
		run_config(bi, cur, ma, nx_replay_n >= 0 ? 8 : 1, red);
		return nv_finish();
	}
	/* every (command, address) pair from every initial configuration */
	for (bi = 0; bi < 4; bi++)
		for (cur = 0; cur < (bufn[bi] ? bufn[bi] : 1); cur++)
			for (ma = -1; ma < bufn[bi]; ma++)
				run_config(bi, cur, ma, 1, 0);
	/* sequences over the reduced alphabet */
	for (bi = 0; bi < 4; bi++)
		for (cur = 0; cur < (bufn[bi] ? bufn[bi] : 1); cur += 2)
			run_config(bi, cur, bufn[bi] > 1 ? 1 : -1, d2, 1);
	nv_stat("max:depth", d2);
	nv_stat("alphabet_size", nv_shard == 0 ? nops : 0);
	if (nv_shard == 0)
		nv_sample("config=3lines/cur=2/mark_a=1 op=\"2;+1d a\": buffer, printed output, current line, marks a-c (by line identity) and registers \\\" a b 1..9 vs reference line editor");
	return nv_finish();
}
