/* C18: bidi reordering is a permutation reversing exactly the opposite-direction runs; shaping (library level) */
#include "nvh.h"
#include "vi.h"
#include "arabic_forms.inc"

int peek_uc_nachars(void);
void peek_uc_achar(int i, unsigned *c, unsigned *s, unsigned *ini, unsigned *m, unsigned *f);

static int ref_enc(unsigned c, char *d)
{
	unsigned char *u = (unsigned char *) d;
	if (c < 0x80) { u[0] = c; return 1; }
	if (c < 0x800) { u[0] = 0xc0 | (c >> 6); u[1] = 0x80 | (c & 0x3f); return 2; }
	if (c < 0x10000) { u[0] = 0xe0 | (c >> 12); u[1] = 0x80 | ((c >> 6) & 0x3f); u[2] = 0x80 | (c & 0x3f); return 3; }
	u[0] = 0xf0 | (c >> 18); u[1] = 0x80 | ((c >> 12) & 0x3f); u[2] = 0x80 | ((c >> 6) & 0x3f); u[3] = 0x80 | (c & 0x3f);
	return 4;
}

static unsigned ref_dec(const char *s)
{
	const unsigned char *u = (const unsigned char *) s;
	if (u[0] < 0x80) return u[0];
	if (u[0] < 0xe0) return ((u[0] & 0x1f) << 6) | (u[1] & 0x3f);
	if (u[0] < 0xf0) return ((u[0] & 0x0f) << 12) | ((u[1] & 0x3f) << 6) | (u[2] & 0x3f);
	return ((u[0] & 7) << 18) | ((u[1] & 0x3f) << 12) | ((u[2] & 0x3f) << 6) | (u[3] & 0x3f);
}

/* ---- reordering -------------------------------------------------------------------------- */
/* base alphabet: Latin letter, digit, neutrals, right-to-left letters, diacritic, ZWNJ, ZWJ */
static const unsigned alpha[] = {'a', 0x628, ' ', '1', 0x627, '-', 0x64e, 0x200c, '(', 0x200d,
	'$', '\\', '{', '}', '[', ']', '*'};
#define NBASE 10
#define NALL 17
#define MAXL 8

/* character classes of the reference scanner */
enum { CL_L, CL_R, CL_N, CL_O };
static int cls(unsigned c)
{
	if (c == 0x628 || c == 0x627 || c == 0x64e || c == 0x200c || c == 0x200d)
		return CL_R;
	if ((c >= 'a' && c <= 'z') || (c >= 'A' && c <= 'Z') || (c >= '0' && c <= '9') || c == '_')
		return CL_L;
	if (c == ' ' || c == '-' || c == '(')
		return CL_N;
	return CL_O;
}

static int ref_context(const unsigned *cp, int n, int td)
{
	if (td > 1)
		return +1;
	if (td < -1)
		return -1;
	if (td == 0 && cp[0] < 0x80)
		return +1;
	if (n > 0 && cls(cp[0]) == CL_R)
		return -1;
	if (n > 0 && cls(cp[0]) == CL_L)
		return +1;
	return td < 0 ? -1 : +1;
}

/* visual order for lines without mark characters: vis[v] = logical index shown at visual slot v */
static void ref_reorder(const unsigned *cp, int n, int ctx, int *vis)
{
	int i = 0, j, k;
	for (k = 0; k < n; k++)
		vis[k] = k;
	while (i < n) {
		int last = -1;
		if (ctx > 0 && cls(cp[i]) == CL_R) {
			/* run of right-to-left letters and neutrals, ending in a right-to-left letter */
			for (j = i + 1; j < n && (cls(cp[j]) == CL_R || cls(cp[j]) == CL_N); j++)
				if (cls(cp[j]) == CL_R)
					last = j;
		} else if (ctx < 0 && cls(cp[i]) == CL_L) {
			/* run of anything but right-to-left letters, ending in a Latin letter or digit */
			for (j = i + 1; j < n && cls(cp[j]) != CL_R; j++)
				if (cls(cp[j]) == CL_L)
					last = j;
		}
		if (last < 0) {
			i++;
			continue;
		}
		for (j = i, k = last; j < k; j++, k--) {
			int t = vis[j]; vis[j] = vis[k]; vis[k] = t;
		}
		i = last + 1;
	}
}

#define MAXC 24
static void check_cps(const unsigned *cpin, int n0, int marks);
static void check_line(const int *idx, int n0, int marks)
{
	unsigned cp[MAXC];
	int i;
	for (i = 0; i < n0; i++)
		cp[i] = alpha[idx[i]];
	check_cps(cp, n0, marks);
}

static unsigned long n_cases;
static void check_cps(const unsigned *cpin, int n0, int marks)
{
	static const int tds[] = {-2, -1, 0, 1, 2};
	static const int orders[] = {0, 1, 2};
	static const int lims[] = {2, 256, 4};
	char s[MAXC * 4 + 8];
	unsigned cp[MAXC + 2];
	int ord[MAXC + 2], vis[MAXC + 2], seen[MAXC + 2];
	int len = 0, i, it, io, il, n = n0 + 1, multibyte = 0;
	for (i = 0; i < n0; i++) {
		cp[i] = cpin[i];
		multibyte |= cp[i] >= 0x80;
		len += ref_enc(cp[i], s + len);
	}
	cp[n0] = '\n';
	s[len++] = '\n';
	s[len] = '\0';
	nv_case_str = s;
	if ((++n_cases & 0xfff) == 0)
		nv_guard(120, "c18-hang", "a block of 4096 lines%s", "");
#define BAD(slug, what, ...) do { nv_viol(slug, "kind=line s=\"%s\" td=%d order=%d lim=%d " what, nv_esc(s, len), xtd, xorder, xlim, __VA_ARGS__); return; } while (0)
	for (it = 0; it < 5; it++) {
		int ctx;
		xtd = tds[it];
		xorder = 1;
		xlim = 256;
		ctx = ref_context(cp, n0, xtd);
		if (dir_context(s) != ctx)
			BAD("c18-context", "dir_context=%d ref=%d", dir_context(s), ctx);
		for (i = 0; i < n; i++)
			ord[i] = i;
		dir_reorder(s, ord);
		/* (1) permutation with the terminator last */
		memset(seen, 0, sizeof(seen));
		for (i = 0; i < n; i++) {
			if (ord[i] < 0 || ord[i] >= n || seen[ord[i]])
				BAD("c18-permutation", "ord[%d]=%d is out of range or repeated", i, ord[i]);
			seen[ord[i]] = 1;
		}
		if (ord[n - 1] != n - 1)
			BAD("c18-permutation", "terminator at visual slot of ord[%d]=%d", n - 1, ord[n - 1]);
		nv_stat("transitions", 1);
		/* letters that are adjacent in the text and of one direction stay adjacent on the screen and read in their own direction */
		{
			int slot[MAXC + 2];
			for (i = 0; i < n; i++)
				slot[ord[i]] = i;
			for (i = 0; i + 1 < n0; i++) {
				int a = cls(cp[i]), b = cls(cp[i + 1]), want;
				if (a != b || (a != CL_L && a != CL_R))
					continue;
				/* inside a configured mark only Latin letters are claimed (what right-to-left letters do inside a
				 * nested mark of a right-to-left line is the configuration's business, not the property's) */
				if (marks && a == CL_R)
					continue;
				if (marks == 2)
					continue;	/* a mark whose content holds right-to-left letters: nothing is claimed beyond the permutation */
				/* screen position grows with the slot in a left-to-right line and shrinks with it in a right-to-left one */
				want = (a == CL_L ? +1 : -1) * (ctx > 0 ? +1 : -1);
				if (slot[i + 1] - slot[i] != want) {
					char a1[64] = "";
					int k;
					for (k = 0; k < n; k++)
						sprintf(a1 + strlen(a1), "%d ", ord[k]);
					BAD("c18-run-direction", "ctx=%d characters %d and %d (%s letters, adjacent in the text) are at visual slots %d and %d; visual order [%s]",
						ctx, i, i + 1, a == CL_L ? "left-to-right" : "right-to-left", slot[i], slot[i + 1], a1);
				}
			}
		}
		/* a $...$ mark (any context, left to right, no nested marks) in a left-to-right line: everything from the
		 * first dollar to the second keeps logical order, whatever letters it holds.  Claimed when nothing before
		 * the first dollar can start another mark (no right-to-left letter, no backslash). */
		if (ctx > 0) {
			int d1 = -1, d2 = -1, clean = 1, slot[MAXC + 2];
			for (i = 0; i < n; i++)
				slot[ord[i]] = i;
			for (i = 0; i < n0 && d1 < 0; i++) {
				if (cp[i] == '$')
					d1 = i;
				else if (cls(cp[i]) == CL_R || cp[i] == '\\')
					clean = 0;
			}
			for (i = d1 + 1; d1 >= 0 && i < n0 && d2 < 0; i++)
				if (cp[i] == '$')
					d2 = i;
			if (clean && d2 > d1 + 1)
				for (i = d1; i < d2; i++)
					if (slot[i + 1] - slot[i] != 1)
						BAD("c18-mark-direction", "ctx=%d the text between the dollars at %d and %d is marked left-to-right, but characters %d and %d are at visual slots %d and %d",
							ctx, d1, d2, i, i + 1, slot[i], slot[i + 1]);
		}
		if (!marks) {
			/* (2)+(3) exactly the opposite-direction runs are reversed in place */
			ref_reorder(cp, n0, ctx, vis);
			vis[n0] = n0;
			for (i = 0; i < n; i++)
				if (ord[i] != vis[i]) {
					char a[64] = "", b[64] = "";
					int k;
					for (k = 0; k < n; k++) {
						sprintf(a + strlen(a), "%d ", ord[k]);
						sprintf(b + strlen(b), "%d ", vis[k]);
					}
					BAD("c18-runs", "ctx=%d visual order [%s] ref [%s]", ctx, a, b);
				}
		}
		/* the column layout must follow the same visual order whenever reordering is enabled */
		for (io = 0; io < 3; io++)
			for (il = 0; il < 3; il++) {
				int *pos, active, col = 0;
				xorder = orders[io];
				xlim = lims[il];
				active = n <= xlim && (xorder == 2 || (xorder == 1 && multibyte));
				pos = ren_position(s);
				for (i = 0; i < n; i++) {
					int k = active ? ord[i] : i;
					/* ord is its own inverse for in-place reversals (lines without marks) */
					if (!marks && pos[k] != col) {
						int p = pos[k];
						free(pos);
						BAD("c18-layout", "visual slot %d (char %d) at column %d expected %d (reordering %s)", i, k, p, col, active ? "on" : "off");
					}
					col += ren_cwid(uc_chr(s, k), col);
				}
				free(pos);
				nv_stat("transitions", 1);
			}
	}
#undef BAD
}

static void part_reorder(int maxl)
{
	int idx[MAXL], n, i, marks;
	long total = 0, nontriv = 0;
	for (marks = 0; marks < 2; marks++) {
		int na = marks ? NALL : NBASE;
		int ml = marks ? maxl - 2 : maxl;
		for (n = 0; n <= ml; n++) {
			long cnt = 1, k;
			for (i = 0; i < n; i++)
				cnt *= na;
			for (k = nv_shard; k < cnt; k += nv_nshards) {
				long v = k;
				int hasmark = 0, hasr = 0, hasl = 0;
				if (nv_expired())
					goto out;
				for (i = 0; i < n; i++) {
					idx[i] = v % na;
					v /= na;
					hasmark |= idx[i] >= NBASE;
					hasr |= cls(alpha[idx[i]]) == CL_R;
					hasl |= cls(alpha[idx[i]]) == CL_L;
				}
				if (marks && !hasmark)
					continue;	/* already covered without marks */
				check_line(idx, n, marks ? 2 : 0);
				total++;
				nontriv += hasr && hasl;
			}
		}
	}
	/* complete direction marks: prefix + open + content + close + suffix */
	{
		static const char *opens[] = {"\\*[", "$", "\\x{", "\\a", "\\*[", "\\ab{"};
		static const char *closes[] = {"]", "$", "}", "", "]", "}"};
		static const unsigned pres[][3] = {{0}, {'a', 0}, {0x628, 0}, {0x628, ' ', 0}, {'a', ' ', 0}};
		int m, pi, si, cl;
		long k, cnt, fam = 0;
		for (m = 0; m < 6; m++)
			for (pi = 0; pi < 5; pi++)
				for (si = 0; si < 5; si++)
					for (cl = 1, cnt = NBASE; cl <= 3; cl++, cnt *= NBASE)
						for (k = 0; k < cnt; k++) {
							unsigned cp[MAXC];
							int q = 0, j;
							long v = k;
							const char *c;
							if ((fam++ % nv_nshards) != nv_shard)
								continue;
							if (nv_expired())
								goto out;
							for (j = 0; pres[pi][j]; j++)
								cp[q++] = pres[pi][j];
							for (c = opens[m]; *c; c++)
								cp[q++] = (unsigned char) *c;
							for (j = 0; j < cl; j++) {
								cp[q++] = alpha[v % NBASE];
								v /= NBASE;
							}
							for (c = closes[m]; *c; c++)
								cp[q++] = (unsigned char) *c;
							for (j = 0; pres[si][j]; j++)
								cp[q++] = pres[si][j];
							{
								int hasr = 0;
								for (j = 0; j < q; j++)
									hasr |= cls(cp[j]) == CL_R && j >= (int) (pres[pi][0] ? (pres[pi][1] ? 2 : 1) : 0) && j < q - (int) (pres[si][0] ? (pres[si][1] ? 2 : 1) : 0);
								check_cps(cp, q, hasr ? 2 : 1);
							}
							total++;
							nontriv++;
						}
	}
out:
	nv_stat("lines", total);
	nv_stat("evaluations", total * 5);
	nv_stat("states", total * 5);
	nv_stat("distinct_nontrivial", nontriv);
	nv_stat("max:maxlen", maxl);
	if (nv_shard == 0)
		nv_sample("line \"a \\xd8\\xa8-\\xd8\\xa7 1\\n\" x td in {-2..2}: dir_context, dir_reorder permutation + exact run reversal vs reference scanner; ren_position x order {0,1,2} x lim {2,256} follows the same visual order");
}

/* ---- shaping ----------------------------------------------------------------------------- */
enum { J_U, J_R, J_D, J_C };

static int form_of(unsigned pf, unsigned *base)
{
	unsigned i;
	for (i = 0; i < sizeof(ar_forms) / sizeof(ar_forms[0]); i++)
		if (ar_forms[i].pf == pf) {
			*base = ar_forms[i].base;
			return ar_forms[i].form;
		}
	return -1;
}

static int jtype(unsigned c)
{
	unsigned i;
	int fin = 0;
	if (c == 0x200d || c == 0x640)
		return J_C;
	for (i = 0; i < sizeof(ar_forms) / sizeof(ar_forms[0]); i++)
		if (ar_forms[i].base == c) {
			if (ar_forms[i].form == 1 || ar_forms[i].form == 2)
				return J_D;
			if (ar_forms[i].form == 3)
				fin = 1;
		}
	return fin ? J_R : J_U;
}

static void part_shape(void)
{
	static const unsigned nbr[] = {0, 0x628, 0x627, 0x621, 'a', 0x200d, 0x200c, 0x640, 0x6cc, 0x62f, ' '};
	/* diacritics that joining looks through: the ends and the middle of U+064B..U+0655, and U+0670 */
	static const unsigned dia[] = {0x64e, 0x651, 0x670, 0x64b, 0x655, 0x652};
#define NDIA 6
	int nn = sizeof(nbr) / sizeof(nbr[0]);
	int na = peek_uc_nachars();
	unsigned cur;
	long total = 0, nontriv = 0;
	int old_td = xtd;
	for (cur = 0x20; cur < 0xff00; cur++) {
		int ip, in, dp, dn, intab = 0, i;
		if ((cur & 0xff) == 0x20)
			nv_guard(120, "c18-hang", "shaping of the letters from U+%04X", cur);
		if (cur == 0x80)
			cur = 0x600;
		if (cur == 0x700)
			cur = 0x2000;
		if (cur == 0x2070)
			cur = 0xfb50;
		if ((long) (cur % nv_nshards) != nv_shard)
			continue;
		for (i = 0; i < na; i++) {
			unsigned c, s1, s2, s3, s4;
			peek_uc_achar(i, &c, &s1, &s2, &s3, &s4);
			intab |= c == cur;
		}
		for (ip = 0; ip < nn; ip++)
			for (in = 0; in < nn; in++)
				for (dp = 0; dp <= 2; dp++)
					for (dn = 0; dn <= 2; dn++) {
						char s[64], *pc, *out;
						int len = 0, k, jp, jn, want;
						unsigned got, base = 0;
						int f;
						if (nbr[ip])
							len += ref_enc(nbr[ip], s + len);
						for (k = 0; k < dp; k++)
							len += ref_enc(dia[(k + ip) % NDIA], s + len);
						pc = s + len;
						len += ref_enc(cur, s + len);
						for (k = 0; k < dn; k++)
							len += ref_enc(dia[(k + in + 1) % NDIA], s + len);
						if (nbr[in])
							len += ref_enc(nbr[in], s + len);
						s[len++] = '\n';
						s[len] = '\0';
						out = uc_shape(s, pc);
						total++;
						nv_stat("transitions", 1);
#define BADS(slug, what, ...) do { nv_viol(slug, "kind=shape s=\"%s\" cur=U+%04X prev=U+%04X(+%d marks) next=U+%04X(+%d marks) " what, \
		nv_esc(s, len), cur, nbr[ip], dp, nbr[in], dn, __VA_ARGS__); goto nextcur; } while (0)
						if (cur < 0x600 || (cur >= 0x2000 && cur < 0x200c) || (cur > 0x200f && cur < 0xfb00)) {
							if (out != NULL)
								BADS("c18-shape-other", "non-Arabic character was given a shape \"%s\"", nv_esc(out, -1));
							continue;
						}
						if (out == NULL) {
							if (intab)
								BADS("c18-shape", "letter of the joining table returned NULL (%d)", 0);
							continue;
						}
						got = ref_dec(out);
						if ((int) strlen(out) != ref_enc(got, (char[8]) {0}))
							BADS("c18-shape", "output is not one code point: \"%s\"", nv_esc(out, -1));
						if (got == cur)
							f = -2;		/* unchanged */
						else
							f = form_of(got, &base);
						if (f == -1 || (f >= 0 && base != cur))
							BADS("c18-shape", "shaped to U+%04X, which is not a presentation form of the same letter", got);
						if (jtype(cur) == J_C || cur == 0x200c) {
							if (got != cur)
								BADS("c18-shape", "joiner/non-joiner altered to U+%04X", got);
							continue;
						}
						/* expected joining, neighbours skipping the combining marks */
						jp = nbr[ip] && (jtype(nbr[ip]) == J_D || jtype(nbr[ip]) == J_C) && jtype(cur) != J_U;
						jn = nbr[in] && jtype(cur) == J_D && jtype(nbr[in]) != J_U;
						want = jp && jn ? 2 : jp ? 3 : jn ? 1 : 0;
						nontriv += want != 0;
						if (!intab) {
							/* letters the editor does not shape: unchanged, or the right form */
							if (f != -2 && f != want)
								BADS("c18-shape", "form %d expected %d", f, want);
							continue;
						}
						if (want == 0 ? (f != -2 && f != 0) : f != want)
							BADS("c18-shape", "got U+%04X (form %d, -2 = unchanged) expected form %d (0 iso,1 ini,2 med,3 fin)", got, f, want);
					}
nextcur:	;
	}
	xtd = old_td;
	nv_stat("shape_contexts", total);
	nv_stat("evaluations", total);
	nv_stat("states", total);
	nv_stat("distinct_nontrivial", nontriv);
	if (nv_shard == 0)
		nv_sample("shape: prev=U+0628 +1 mark, cur=U+0644, next=U+0627: expects <medial> U+0644 per Unicode decomposition data");
}

int main(int argc, char **argv)
{
	nv_init(argc, argv);
	nv_crash_guard("c18-crash");
	dir_init();
	part_reorder(atoi(nv_arg(argc, argv, "maxlen", nv_thorough ? "7" : "5")));
	part_shape();
	return nv_finish();
}
