/* C13 (a): search lands on the first match after / last match before the cursor, no wrap (real lbuf_search) */
#include "nvenv.h"
#include "vi.h"
#include "refsearch.h"

extern int nv_re_depthhit;
extern int xic;

static void nx_choice(void)
{
	nv_err("unexpected read from standard input");
	_exit(2);
}

static const char *pcodes[] = {
	"a", "Cab", "g", "Cha", "Cai", "Chi", "Cja", "Cak", "CjCaCbk", "*a", "*l", "c", "Aab", "CGa?Gb", "+d",
	"i", "h", "j", "k", "m", "*b", "Cma", "Cam", "CjCaCmb", "2a", "Ckm", "CcCjc",
};
#define NPC ((int) (sizeof(pcodes) / sizeof(pcodes[0])))
static const char *lalpha[] = {"a", "b", " ", "\xc3\xa9"};
#define NLA 4

static long n_search, n_found;

static void check_buffer(const struct rr_ast *a, const char *pat, struct rline *ln, int nl, struct lbuf *lb, int ic)
{
	int r0, o0, dir, i;
	for (r0 = 0; r0 < nl; r0++) {
		int nch = ln[r0].sj.np - 1;		/* characters including the newline */
		int maxo = nch - 2 > 0 ? nch - 2 : 0;
		for (o0 = 0; o0 <= maxo; o0++)
			for (dir = -1; dir <= 1; dir += 2) {
				int r = r0, o = o0, len = -9, ret;
				int er = -1, eo = -1, elen = -1;	/* reference */
				int dr = -1, dof = -1;			/* listed deviation (context lost at the resumed offset) */
				int lost;
				nv_re_depthhit = 0;
				ret = lbuf_search(lb, (char *) pat, dir, &r, &o, &len);
				n_search++;
				for (lost = 0; lost < 2; lost++) {
					int fr, fo, fl;
					rs_search(a, ln, nl, r0, o0, dir, lost, &fr, &fo, &fl);
					if (!lost) {
						er = fr; eo = fo; elen = fl;
					} else {
						dr = fr; dof = fo;
					}
				}
				if (nv_re_depthhit)
					continue;
#define DESC "kind=search pattern=\"%s\" ic=%d buffer=\"%s|%s|%s\" cursor=(%d,%d) dir=%d"
#define DARGS nv_esc(pat, -1), ic, nl > 0 ? nv_esc(ln[0].s, -1) : "", nl > 1 ? nv_esc(ln[1].s, -1) : "", nl > 2 ? nv_esc(ln[2].s, -1) : "", r0, o0, dir
				if (er < 0) {
					if (!ret) {
						if (dr == r && dof == o)
							nv_dev("c13-wordboundary-resumed", DESC " lands on (%d,%d); in the whole line nothing matches there (word boundary judged without its left neighbour)", DARGS, r, o);
						else
							nv_viol("c13-phantom", DESC " reports a match at (%d,%d) but no match exists in that direction", DARGS, r, o);
					} else if (r != r0 || o != o0) {
						nv_viol("c13-moved", DESC " found nothing but moved the position to (%d,%d)", DARGS, r, o);
					}
					continue;
				}
				n_found++;
				if (ret) {
					if (dr < 0)
						nv_dev("c13-wordboundary-resumed", DESC " finds nothing; in the whole line the match at (%d,%d) exists (word boundary judged without its left neighbour)", DARGS, er, eo);
					else
						nv_viol("c13-missed", DESC " reports not found but the match at (%d,%d) exists", DARGS, er, eo);
					continue;
				}
				if (r != er || o != eo) {
					if (r == dr && o == dof)
						nv_dev("c13-wordboundary-resumed", DESC " lands on (%d,%d), reference (%d,%d) (word boundary judged without its left neighbour)", DARGS, r, o, er, eo);
					else
						nv_viol("c13-position", DESC " lands on (%d,%d), reference (%d,%d)", DARGS, r, o, er, eo);
					continue;
				}
				if (len != elen)
					nv_viol("c13-length", DESC " match length %d characters, reference %d", DARGS, len, elen);
			}
	}
}

static void one_pattern(const char *code, int maxn2, int maxn3)
{
	struct rr_ast a;
	char pat[128] = "";
	int root, ic, nl;
	memset(&a, 0, sizeof(a));
	build(&a, code, &root);
	a.root = root;
	print(code, pat);
	nv_guard(800, "c13-hang", "pattern=\"%s\"", nv_esc(pat, -1));
	for (ic = 0; ic < 2; ic++) {
		xic = ic;
		for (nl = 1; nl <= 3; nl++) {
			int maxn = nl == 3 ? maxn3 : maxn2;
			long per = 0, c = 1, total = 1, k;
			int n, i;
			for (n = 0; n <= maxn; n++, c *= NLA)
				per += c;
			for (i = 0; i < nl; i++)
				total *= per;
			for (k = 0; k < total; k++) {
				struct rline ln[3];
				struct lbuf *lb = lbuf_make();
				char text[96] = "";
				long v = k;
				for (i = 0; i < nl; i++) {
					long idx = v % per, cc = 1;
					int len = 0, j;
					v /= per;
					/* idx -> string of length len */
					for (len = 0; idx >= cc; len++) {
						idx -= cc;
						cc *= NLA;
					}
					ln[i].s[0] = '\0';
					for (j = 0; j < len; j++) {
						strcat(ln[i].s, lalpha[idx % NLA]);
						idx /= NLA;
					}
					strcat(ln[i].s, "\n");
					strcat(text, ln[i].s);
					rr_subj_init(&ln[i].sj, ln[i].s, ic, 0, 0);
				}
				lbuf_edit(lb, text, 0, 0);
				check_buffer(&a, pat, ln, nl, lb, ic);
				lbuf_free(lb);
				nv_stat("states", 1);
			}
		}
	}
	nv_stat("patterns", 1);
}

static int maxn2, maxn3;
static void run_case(long j)
{
	long i = j * nv_nshards + nv_shard;
	n_search = n_found = 0;
	one_pattern(pcodes[i], maxn2, maxn3);
	nv_stat("searches", n_search);
	nv_stat("transitions", n_search);
	nv_stat("evaluations", n_search);
	nv_stat("distinct_nontrivial", n_found);
	if (j == 0 && nv_shard == 0)
		nv_sample("pattern \"\\\\<ab\\\\>\" x every buffer of 1-2 lines of <= %d and 3 lines of <= %d characters over {a,b,space,U+00E9} x every cursor x forward/backward x ic: lbuf_search position and length vs whole-line reference", maxn2, maxn3);
}

static void desc_case(long j, char *buf, int len)
{
	char pat[128] = "";
	print(pcodes[j * nv_nshards + nv_shard], pat);
	snprintf(buf, len, "lbuf_search with pattern \"%s\"", nv_esc(pat, -1));
}

int main(int argc, char **argv)
{
	long my_n;
	char errpath[512];
	nv_init(argc, argv);
	maxn2 = atoi(nv_arg(argc, argv, "len2", nv_thorough ? "4" : "3"));
	maxn3 = atoi(nv_arg(argc, argv, "len3", nv_thorough ? "2" : "1"));
	my_n = (NPC - nv_shard + nv_nshards - 1) / nv_nshards;
	snprintf(errpath, sizeof(errpath), "%s.err", nv_arg(argc, argv, "out", "c13"));
	nv_forkloop(my_n, run_case, desc_case, "c13-memory", errpath);
	nv_stat("max:line_len", maxn2);
	return nv_finish();
}
