/* C04 (b): undo and redo restore exact earlier texts, one step per command - editor level (vi and ex commands) */
#include "nvx.h"
#include "vi.h"

#define ESC "\x1b"
enum { K_EDIT, K_UNDO, K_REDO };
static const struct { const char *name, *bytes; int kind; } ops[] = {
	{"x", "x", K_EDIT},
	{"u", "u", K_UNDO},
	{"^R", "\x12", K_REDO},
	{"3x", "3x", K_EDIT},
	{"2dd", "2dd", K_EDIT},
	{"ofoo<CR>bar<ESC>", "ofoo\nbar" ESC, K_EDIT},
	{":g/a/d", ":g/a/d\n", K_EDIT},
	{":%s/a/b/g", ":%s/a/b/g\n", K_EDIT},
	{".", ".", K_EDIT},
	{"p", "p", K_EDIT},
	{":u", ":u\n", K_UNDO},
	{":redo", ":redo\n", K_REDO},
	{"rZ", "rZ", K_EDIT},
	{"~", "~", K_EDIT},
	{":1d", ":1d\n", K_EDIT},
	{"dG", "dG", K_EDIT},
	{"3J", "3J", K_EDIT},
	{">G", ">G", K_EDIT},
	{":1,2!tr a-z A-Z", ":1,2!tr a-z A-Z\n", K_EDIT},
	{"cwX<ESC>", "cwX" ESC, K_EDIT},
	{"P", "P", K_EDIT},
	{":2,3g/./s/$/!/", ":2,3g/./s/$/!/\n", K_EDIT},
	{"j", "j", K_EDIT},
	{"w", "w", K_EDIT},
	{"dd", "dd", K_EDIT},
	{":w nf", ":w nf\n", K_EDIT},		/* a write changes no text and no history (an unnamed buffer adopts the name) */
};
#define NOPS ((int) (sizeof(ops) / sizeof(ops[0])))
static int nops_used;

/* the same in ex mode (vi -s -e): there ex_command() alone ends a command, and a command line may edit
 * and still fail in a later part */
static const struct { const char *name, *bytes; int kind; } ops_ex[] = {
	{"1s/a/Q/", "1s/a/Q/\n", K_EDIT},
	{"u", "u\n", K_UNDO},
	{"redo", "redo\n", K_REDO},
	{"1s/a/Q/|99p", "1s/a/Q/|99p\n", K_EDIT},
	{"2d", "2d\n", K_EDIT},
	{"$a|x|.", "$a\nx\n.\n", K_EDIT},
	{"g/a/s//R/", "g/a/s//R/\n", K_EDIT},
	{"1d|'zd", "1d|'zd\n", K_EDIT},
	{"99d", "99d\n", K_EDIT},
	{"1,2d|1pu", "1,2d|1pu\n", K_EDIT},
	{"w nf", "w nf\n", K_EDIT},
};
#define NOPS_EX ((int) (sizeof(ops_ex) / sizeof(ops_ex[0])))
static int exmode;
#define OP_NAME(k) (exmode ? ops_ex[k].name : ops[k].name)
#define OP_KIND(k) (exmode ? ops_ex[k].kind : ops[k].kind)

/* reference: the stack of texts, one entry per command that spliced the buffer */
#define MAXT 16
static char *texts[MAXT];
static int nt, idx;
static char cfg_name[64];
static int cfg;

static char *curtext(void)
{
	return lbuf_cp(xb, 0, lbuf_len(xb));
}

static int state_bad;
static long pre_splices;
static void op_effect(int k)
{
	(void) k;
}

static void pre_state(void)
{
	char *t = curtext();
	int k = nx_depth ? nx_hist[nx_depth - 1] : -1;
	state_bad = 0;
	if (k < 0) {
		texts[0] = t;
		nt = 1;
		idx = 0;
		return;
	}
	if (!nvx_idle && !exmode) {
		nx_viol("c04-idle", "the editor is still inside a command after the keys of %s", OP_NAME(k));
		state_bad = 1;
		free(t);
		return;
	}
	switch (OP_KIND(k)) {
	case K_EDIT:
		if (nvx_splices > 0) {
			/* a modifying command: it is one undo step and discards the redo branch */
			if (idx + 1 < MAXT) {
				idx++;
				texts[idx] = t;
				nt = idx + 1;
				return;
			}
		} else if (strcmp(t, texts[idx])) {
			nx_viol("c04-silent-change", "%s changed the text without going through the line buffer's edit interface", OP_NAME(k));
			state_bad = 1;
		}
		break;
	case K_UNDO:
		if (idx > 0) {
			idx--;
			if (strcmp(t, texts[idx])) {
				nx_viol("c04-undo", "%s gives \"%s\"; the text before the most recent not-yet-undone modifying command was \"%s\" (one step per command)",
					OP_NAME(k), nv_esc(t, -1), nv_esc(texts[idx], -1));
				state_bad = 1;
			}
		} else if (strcmp(t, texts[0])) {
			nx_viol("c04-undo-end", "%s at the beginning of the history changed the text to \"%s\"", OP_NAME(k), nv_esc(t, -1));
			state_bad = 1;
		}
		break;
	case K_REDO:
		if (idx + 1 < nt) {
			idx++;
			if (strcmp(t, texts[idx])) {
				nx_viol("c04-redo", "%s gives \"%s\"; the matching undo had removed \"%s\"", OP_NAME(k), nv_esc(t, -1), nv_esc(texts[idx], -1));
				state_bad = 1;
			}
		} else if (strcmp(t, texts[idx])) {
			nx_viol("c04-redo-end", "%s at the end of the history changed the text to \"%s\"", OP_NAME(k), nv_esc(t, -1));
			state_bad = 1;
		}
		break;
	}
	free(t);
	if (state_bad)
		nx_bound = nx_depth;
	(void) pre_splices;
}

static void nx_at_state(void)
{
	__sync_fetch_and_add(&nx_sh->hist[idx < 7 ? idx : 7], 1);
}
static int nx_nops(void) { return nops_used; }
static const char *nx_op_name(int k) { return OP_NAME(k); }
static int nx_op_bytes(int k, char *buf, int max)
{
	(void) max;
	strcpy(buf, exmode ? ops_ex[k].bytes : ops[k].bytes);
	return strlen(buf);
}
static int nx_enabled(int k)
{
	(void) k;
	return 1;
}
static unsigned long long nx_state_hash(void) { return 0; }
static int nx_leaf_bytes(char *buf, int max)
{
	(void) max;
	strcpy(buf, exmode ? "w! out\nq!\n" : ESC ":w! out\n:q!\n");
	return strlen(buf);
}
static void nx_at_exit(void)
{
	if (!nx_in_leaf)
		nx_viol("c04-exit", "the editor exited on an editing command%s", "");
}
static const char *nx_config_name(void) { return cfg_name; }
static const char *hist_name(int i)
{
	static char b[32];
	snprintf(b, sizeof(b), "states_at_history_position_%d", i);
	return b;
}

static void run_config(int c, int depth, int n)
{
	char *argv[] = {"vi", "-v", "f", NULL};
	char *argv_ex[] = {"vi", "-s", "-e", "f", NULL};
	static const char *bufs[] = {"ab a\nsecond line a\nthird\nfourth a b\nfifth\n", "a\n", "one a\n\n  two\n", NULL};
	char *argv_nf[] = {"vi", "-v", NULL};		/* configuration 3: no file name */
	char *argv_ex_nf[] = {"vi", "-s", "-e", NULL};
	cfg = c;
	nops_used = n;
	exmode = c >= 10;
	if (exmode)
		c -= 10;
	vfs_n = 0;
	if (bufs[c])
		vfs_put("f", bufs[c], -1);
	setenv("LINES", "24", 1);
	setenv("COLUMNS", "60", 1);
	setenv("EXINIT", "se wa", 1);	/* filters are refused on a modified buffer unless writeany is set */
	snprintf(cfg_name, sizeof(cfg_name), "%sbuf%d", exmode ? "ex/" : "", c);
	nx_bound = depth;
	snprintf(nx_cfg_args, sizeof(nx_cfg_args), "cfg=%d", exmode ? c + 10 : c);
	if (!bufs[c])
		nx_run(exmode ? 3 : 2, exmode ? argv_ex_nf : argv_nf);
	else if (exmode)
		nx_run(4, argv_ex);
	else
		nx_run(3, argv);
	nv_stat("configurations", 1);
	nx_report();
}

int main(int argc, char **argv)
{
	int d;
	nv_init(argc, argv);
	d = atoi(nv_arg(argc, argv, "depth", nv_thorough ? "5" : "4"));
	nx_init(argc, argv, d, 0);
	nx_hist_name = hist_name;
	nx_pre_state = pre_state;
	nx_op_effect = op_effect;
	nx_trace_every = atoi(nv_arg(argc, argv, "trace", nv_thorough ? "1999" : "199"));
	signal(SIGPIPE, SIG_IGN);
	if (nv_arg(argc, argv, "cfg", NULL)) {
		int c = atoi(nv_arg(argc, argv, "cfg", "0"));
		run_config(c, nx_replay_n >= 0 ? 12 : d, c >= 10 ? NOPS_EX : NOPS);
		return nv_finish();
	}
	run_config(0, d, 12);		/* depth d over the 12-operation core */
	run_config(0, d - 1, NOPS);	/* depth d-1 over everything */
	run_config(1, d - 1, 12);
	run_config(2, d - 1, 12);
	run_config(3, d - 1, NOPS);	/* no file name: the buffer is empty and adopts the name of the first write */
	run_config(13, d - 1, NOPS_EX);
	run_config(10, d, NOPS_EX);	/* ex mode */
	run_config(12, d - 1, NOPS_EX);
	nv_stat("max:depth", d);
	if (nv_shard == 0)
		nv_sample("config=buf0 history=[2dd ; :g/a/d ; u ; x ; ^R ; u ; u]: after every u / ^R / :u / :redo the buffer text vs the harness's own stack of whole-text snapshots (one per command that spliced the buffer)");
	return nv_finish();
}
