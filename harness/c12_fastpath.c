/* C12: the literal-pattern fast path is indistinguishable from the general regex engine */
#include "nvh.h"
#include "vi.h"

extern int nv_re_depthhit;
int peek_rstr_is_simple(struct rstr *rs);

static const char *lits[] = {"a", "B", "-", " ", "\xc3\xa9", "|", "^", "b", "~", "_", "\xc3\x89", "@"};
#define NLIT 12
static const char *lalpha[] = {"a", "b", "B", "-", " ", "\xc3\xa9", "^", "\xc3\x89", "\x7f", "`"};
#define NLA 10

static char (*subjects)[16];
static long nsubj;

static void gen_subjects(int maxn)
{
	long cnt, k, tot = 0, c;
	int n, i;
	for (n = 0, c = 1; n <= maxn; n++, c *= NLA)
		tot += c;
	subjects = malloc(tot * sizeof(subjects[0]));
	for (n = 0, cnt = 1; n <= maxn; n++, cnt *= NLA)
		for (k = 0; k < cnt; k++) {
			long v = k;
			char *d = subjects[nsubj++];
			d[0] = '\0';
			for (i = 0; i < n; i++) {
				strcat(d, lalpha[v % NLA]);
				v /= NLA;
			}
			strcat(d, "\n");
		}
}

static long n_cmp, n_found, n_simple;

static void compare_pattern(const char *pat)
{
	int icase, nb, ne;
	long k;
	for (icase = 0; icase < 2; icase++) {
		char *pp = (char *) pat;
		struct rstr *rt = rstr_make((char *) pat, icase ? RE_ICASE : 0);
		struct rset *rs = rset_make(1, &pp, icase ? RE_ICASE : 0);
		int simple = rt && peek_rstr_is_simple(rt);
		if (!rt || !rs) {
			if ((rt != NULL) != (rs != NULL))
				nv_viol("c12-compile", "kind=fastpath pattern=\"%s\" icase=%d single-pattern matcher %s, pattern-set matcher %s",
					nv_esc(pat, -1), icase, rt ? "accepts" : "rejects", rs ? "accepts" : "rejects");
			if (rt) rstr_free(rt);
			if (rs) rset_free(rs);
			continue;
		}
		n_simple += simple && !icase;
		for (k = 0; k < nsubj; k++)
			for (nb = 0; nb < 2; nb++)
				for (ne = 0; ne < 2; ne++) {
					int flg = (nb ? RE_NOTBOL : 0) | (ne ? RE_NOTEOL : 0);
					int g1[8], g2[8], i, r1, r2;
					for (i = 0; i < 8; i++)
						g1[i] = g2[i] = -7;
					nv_re_depthhit = 0;
					r1 = rstr_find(rt, subjects[k], 4, g1, flg);
					r2 = rset_find(rs, subjects[k], 4, g2, flg);
					n_cmp++;
					if (nv_re_depthhit) {
						nv_viol("c12-depth", "kind=fastpath pattern=\"%s\" subject=\"%s\" depth limit hit on a tiny input", nv_esc(pat, -1), nv_esc(subjects[k], -1));
						continue;
					}
					if ((r1 >= 0) != (r2 >= 0) || (r1 >= 0 && (g1[0] != g2[0] || g1[1] != g2[1]))) {
						/* the one listed deviation: '$' under not-EOL (no editor caller passes not-EOL here) */
						if (simple && ne && r1 < 0 && r2 >= 0 && pat[0] && pat[strlen(pat) - 1] == '$')
							nv_dev("c12-noteol-dollar", "kind=fastpath pattern=\"%s\" subject=\"%s\" icase=%d notbol=%d noteol=%d fast path: no match, engine: (%d,%d)",
								nv_esc(pat, -1), nv_esc(subjects[k], -1), icase, nb, ne, g2[0], g2[1]);
						else
							nv_viol("c12-differs", "kind=fastpath pattern=\"%s\" subject=\"%s\" icase=%d notbol=%d noteol=%d single-pattern matcher: %s (%d,%d), pattern-set matcher: %s (%d,%d)%s",
								nv_esc(pat, -1), nv_esc(subjects[k], -1), icase, nb, ne, r1 >= 0 ? "found" : "none", g1[0], g1[1],
								r2 >= 0 ? "found" : "none", g2[0], g2[1], simple ? " [fast path]" : "");
						continue;
					}
					if (r1 >= 0) {
						n_found++;
						for (i = 2; i < 8; i++)
							if (g1[i] != -1) {
								nv_viol("c12-groups", "kind=fastpath pattern=\"%s\" subject=\"%s\" group %d reported as %d, expected unset (-1)",
									nv_esc(pat, -1), nv_esc(subjects[k], -1), i / 2, g1[i]);
								break;
							}
					}
				}
		/* slices: the editor resumes a search or a substitution inside the line and passes the rest of the
		 * line with not-BOL; both matchers must treat the slice start alike (neither may look to its left) */
		for (k = 0; k < nsubj; k++) {
			int off, nch = 0;
			for (off = 0; subjects[k][off]; off++)
				nch += (subjects[k][off] & 0xc0) != 0x80;
			if (nch > 5)		/* (with the newline) the longest lines of the thorough tier: whole-line comparisons only */
				continue;
			for (off = 1; subjects[k][off]; off++) {
				int g1[8], g2[8], i, r1, r2;
				if ((subjects[k][off] & 0xc0) == 0x80)
					continue;
				for (i = 0; i < 8; i++)
					g1[i] = g2[i] = -7;
				nv_re_depthhit = 0;
				r1 = rstr_find(rt, subjects[k] + off, 4, g1, RE_NOTBOL);
				r2 = rset_find(rs, subjects[k] + off, 4, g2, RE_NOTBOL);
				n_cmp++;
				if (nv_re_depthhit)
					continue;
				if ((r1 >= 0) != (r2 >= 0) || (r1 >= 0 && (g1[0] != g2[0] || g1[1] != g2[1])))
					nv_viol("c12-differs", "kind=fastpath pattern=\"%s\" subject=\"%s\" from byte offset %d icase=%d notbol=1 noteol=0 single-pattern matcher: %s (%d,%d), pattern-set matcher: %s (%d,%d)%s",
						nv_esc(pat, -1), nv_esc(subjects[k], -1), off, icase, r1 >= 0 ? "found" : "none", g1[0], g1[1],
						r2 >= 0 ? "found" : "none", g2[0], g2[1], simple ? " [fast path]" : "");
				else if (r1 >= 0)
					n_found++;
			}
		}
		rstr_free(rt);
		rset_free(rs);
	}
}

/* classifier: a string treated as a literal must contain no ERE operator outside the anchor slots */
static const char *calpha[] = {"a", "(", ")", "[", "]", "^", "$", "|", "*", "+", "?", "{", "}", ",", "1", "2",
	"\\", "<", ">", ".", "-", ":", "\xc3\xa9"};
#define NCA 23

static void classify(const char *pat)
{
	struct rstr *rt = rstr_make((char *) pat, 0);
	const char *b = pat, *e = pat + strlen(pat), *p;
	nv_stat("classified", 1);
	if (!rt)
		return;
	if (peek_rstr_is_simple(rt)) {
		if (b < e && b[0] == '^')
			b++;
		if (e - b >= 2 && b[0] == '\\' && b[1] == '<')
			b += 2;
		if (e > b && e[-1] == '$' && !(e - b >= 2 && e[-2] == '\\'))
			e--;
		if (e - b >= 2 && e[-2] == '\\' && e[-1] == '>')
			e -= 2;
		for (p = b; p < e; p++)
			if (strchr(".[()*+?{|\\^$", *p)) {
				nv_viol("c12-classifier", "kind=classifier pattern=\"%s\" is handled as a literal although it contains the operator '%c'", nv_esc(pat, -1), *p);
				break;
			}
		nv_stat("classified_simple", 1);
	}
	rstr_free(rt);
}

int main(int argc, char **argv)
{
	int litlen, linelen, clen, a, n, i;
	long idx = 0, npat = 0;
	nv_init(argc, argv);
	nv_crash_guard("c12-crash");
	litlen = atoi(nv_arg(argc, argv, "lit", nv_thorough ? "3" : "2"));
	linelen = atoi(nv_arg(argc, argv, "len", nv_thorough ? "5" : "4"));
	clen = atoi(nv_arg(argc, argv, "clen", nv_thorough ? "4" : "3"));
	gen_subjects(linelen);
	for (n = 0; n <= litlen; n++) {
		long cnt = 1, k;
		for (i = 0; i < n; i++)
			cnt *= NLIT;
		for (k = 0; k < cnt; k++)
			for (a = 0; a < 16; a++) {
				char pat[64] = "";
				long v = k;
				if ((idx++ % nv_nshards) != nv_shard)
					continue;
				if (nv_expired())
					goto out;
				if (a & 1) strcat(pat, "^");
				if (a & 2) strcat(pat, "\\<");
				for (i = 0; i < n; i++) {
					strcat(pat, lits[v % NLIT]);
					v /= NLIT;
				}
				if (a & 4) strcat(pat, "\\>");
				if (a & 8) strcat(pat, "$");
				nv_guard(60, "c12-hang", "pattern=\"%s\"", nv_esc(pat, -1));
				compare_pattern(pat);
				npat++;
				if (npat <= 2 && nv_shard == 0)
					nv_sample("pattern \"%s\" x %ld lines x icase x notbol x noteol: rstr_find vs rset_find (found, so, eo), groups 1..3 unset", nv_esc(pat, -1), nsubj);
			}
	}
	/* classifier over every short string of the metacharacter alphabet */
	idx = 0;
	for (n = 0; n <= clen; n++) {
		long cnt = 1, k;
		for (i = 0; i < n; i++)
			cnt *= NCA;
		for (k = 0; k < cnt; k++) {
			char pat[64] = "";
			long v = k;
			if ((idx++ % nv_nshards) != nv_shard)
				continue;
			for (i = 0; i < n; i++) {
				strcat(pat, calpha[v % NCA]);
				v /= NCA;
			}
			nv_guard(60, "c12-hang", "pattern=\"%s\"", nv_esc(pat, -1));
			classify(pat);
		}
	}
out:
	alarm(0);
	nv_stat("patterns", npat);
	nv_stat("states", npat * nsubj);
	nv_stat("transitions", n_cmp * 2);
	nv_stat("evaluations", n_cmp);
	nv_stat("distinct_nontrivial", n_found);
	nv_stat("fastpath_patterns", n_simple);
	nv_stat("max:literal_len", litlen);
	nv_stat("max:line_len", linelen);
	nv_histo("found", n_found);
	nv_histo("not_found", n_cmp - n_found);
	return nv_finish();
}
