/*
 * ref_vi, editing half: the text as a list of lines (UTF-8, without the newline), registers, and the
 * reference effect of operators, puts, join, replace, case toggle and inserts (DESIGN.md appendix C).
 */
#ifndef REFVI_EDIT_H
#define REFVI_EDIT_H
#include "refvi.h"
#include <stdlib.h>
#include <stdio.h>

#define RT_LNSZ 256
struct rtext {
	int n;
	char ln[RV_MAXLN][RT_LNSZ];
};
struct rreg { char t[1024]; int set, lnmode; };
#define RT_NREG 12	/* 0 unnamed, 1 'a', 2 'b', 3.. '1'..'9' */
struct rstate {
	struct rtext t;
	struct rvcur c;
	struct rreg reg[RT_NREG];
};

static void rt_load(struct rtext *t, const char *text)
{
	t->n = 0;
	while (*text && t->n < RV_MAXLN) {
		const char *nl = strchr(text, '\n');
		int l = nl ? nl - text : (int) strlen(text);
		snprintf(t->ln[t->n], RT_LNSZ, "%.*s", l, text);
		t->n++;
		text = nl ? nl + 1 : text + l;
	}
}

static void rt_text(const struct rtext *t, char *out, int max)
{
	int i, o = 0;
	out[0] = '\0';
	for (i = 0; i < t->n; i++)
		o += snprintf(out + o, max - o, "%s\n", t->ln[i]);
}

static void rt_view(const struct rtext *t, struct rvbuf *b)
{
	int i;
	b->n = t->n;
	for (i = 0; i < t->n; i++)
		b->len[i] = rv_decode(t->ln[i], b->cp[i]);
}

/* byte offset of character o in a line (o may equal the number of characters) */
static int rt_boff(const char *s, int o)
{
	const unsigned char *u = (const unsigned char *) s;
	int i = 0;
	while (o > 0 && u[i]) {
		i += u[i] < 0x80 ? 1 : u[i] < 0xe0 ? 2 : u[i] < 0xf0 ? 3 : 4;
		o--;
	}
	return i;
}

static int rt_nchars(const char *s)
{
	unsigned tmp[RT_LNSZ];
	return rv_decode(s, tmp);
}

static int reg_idx(int name)
{
	if (name == 0 || name == '"')
		return 0;
	if (name == 'a' || name == 'A')
		return 1;
	if (name == 'b' || name == 'B')
		return 2;
	if (name >= '1' && name <= '9')
		return 3 + name - '1';
	return -1;
}

/* store into a register; line-wise or multi-line text into the unnamed or a letter register rotates 1..9 */
static void rt_regput(struct rstate *s, int name, const char *text, int lnmode)
{
	int idx = reg_idx(name), i;
	if (idx < 0)
		return;
	if ((lnmode || strchr(text, '\n')) && idx <= 2) {
		for (i = 8; i > 0; i--)
			if (s->reg[2 + i].set)
				s->reg[2 + i + 1] = s->reg[2 + i];
		snprintf(s->reg[3].t, sizeof(s->reg[3].t), "%s", text);
		s->reg[3].set = 1;
		s->reg[3].lnmode = lnmode;
	}
	if ((name == 'A' || name == 'B') && s->reg[idx].set)
		strncat(s->reg[idx].t, text, sizeof(s->reg[idx].t) - strlen(s->reg[idx].t) - 1);
	else
		snprintf(s->reg[idx].t, sizeof(s->reg[idx].t), "%s", text);
	s->reg[idx].set = 1;
	s->reg[idx].lnmode = lnmode;
}

/* the text of the span [ (r1,o1), (r2,o2) ) ; line-wise: whole lines r1..r2 */
static void rt_span(const struct rtext *t, int r1, int o1, int r2, int o2, int lnmode, char *out, int max)
{
	int i, o = 0;
	out[0] = '\0';
	if (lnmode) {
		for (i = r1; i <= r2 && i < t->n; i++)
			o += snprintf(out + o, max - o, "%s\n", t->ln[i]);
		return;
	}
	if (r1 == r2) {
		int b = rt_boff(t->ln[r1], o1), e = rt_boff(t->ln[r1], o2);
		snprintf(out, max, "%.*s", e - b, t->ln[r1] + b);
		/* an end offset one past the last character takes the newline */
		if (o2 > rt_nchars(t->ln[r1]))
			strncat(out, "\n", max - strlen(out) - 1);
		return;
	}
	o += snprintf(out + o, max - o, "%s\n", t->ln[r1] + rt_boff(t->ln[r1], o1));
	for (i = r1 + 1; i < r2; i++)
		o += snprintf(out + o, max - o, "%s\n", t->ln[i]);
	o += snprintf(out + o, max - o, "%.*s", rt_boff(t->ln[r2], o2), t->ln[r2]);
}

static void rt_dellines(struct rtext *t, int r1, int r2)
{
	int k = r2 - r1 + 1;
	memmove(t->ln[r1], t->ln[r2 + 1], (t->n - r2 - 1) * RT_LNSZ);
	t->n -= k;
}

static void rt_inslines(struct rtext *t, int at, int k)
{
	memmove(t->ln[at + k], t->ln[at], (t->n - at) * RT_LNSZ);
	t->n += k;
}

/* remove the span; character-wise: the rest of r1 and r2 are joined */
static void rt_delete(struct rtext *t, int r1, int o1, int r2, int o2, int lnmode)
{
	char joined[RT_LNSZ * 2];
	if (lnmode) {
		rt_dellines(t, r1, r2);
		return;
	}
	snprintf(joined, sizeof(joined), "%.*s%s", rt_boff(t->ln[r1], o1), t->ln[r1], t->ln[r2] + rt_boff(t->ln[r2], o2));
	if (r2 > r1)
		rt_dellines(t, r1 + 1, r2);
	snprintf(t->ln[r1], RT_LNSZ, "%s", joined);
}

/* replace the span by text that may contain newlines (used by c and by inserts: empty span) */
static void rt_replace_span(struct rtext *t, int r1, int o1, int r2, int o2, const char *text, int *er, int *eo)
{
	char pre[RT_LNSZ], post[RT_LNSZ], all[2048];
	const char *p;
	int k = 0, r = r1;
	snprintf(pre, sizeof(pre), "%.*s", rt_boff(t->ln[r1], o1), t->ln[r1]);
	snprintf(post, sizeof(post), "%s", t->ln[r2] + rt_boff(t->ln[r2], o2));
	if (r2 > r1)
		rt_dellines(t, r1 + 1, r2);
	snprintf(all, sizeof(all), "%s%s", pre, text);
	for (p = all; *p; p++)
		k += *p == '\n';
	if (k)
		rt_inslines(t, r1 + 1, k);
	p = all;
	while (1) {
		const char *nl = strchr(p, '\n');
		int l = nl ? nl - p : (int) strlen(p);
		snprintf(t->ln[r], RT_LNSZ, "%.*s", l, p);
		if (!nl)
			break;
		p = nl + 1;
		r++;
	}
	/* the cursor ends on the last typed character */
	*er = r;
	*eo = rt_nchars(t->ln[r]) - 1;
	strncat(t->ln[r], post, RT_LNSZ - strlen(t->ln[r]) - 1);
	if (*eo < 0)
		*eo = 0;
}
#endif
