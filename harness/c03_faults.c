/* C03: writes never clobber foreign or newer files; failures surface and stay dirty */
#include "nvenv.h"
#include "exh.h"

int nv_main(int argc, char **argv);

/* ---- one execution is a small script driven from the choice points ------------------------------------- */
static const char *shape_names[] = {"0 lines", "1 short line", "3 x 2000 bytes", "one 5000-byte line", "2000 + 5000 + 10 bytes"};
static const char *cmds[] = {"w", "w!", "w g", "w! g", "wq", "x", "xa", "wq!", "xa!"};
#define NCMD 9
static char *shape_text[5];

static int c_shape, c_cmd;
static char casedesc[512];
static int phase;
static char *expect;		/* expected bytes of the target on success */
static char *expect2;		/* xa: expected bytes of the second file */
static const char *target;	/* path written by the command */
static int had_error;		/* the plan holds an error answer that fired */
static int reported_ok, exited_after_cmd;
static char *pre_target;	/* target bytes before the command (NULL: absent) */
static long pre_target_mtime;
static int matrix_mode;		/* >0: guard-matrix case number */
static int expect_refused;	/* matrix: the write must be refused */
static const char *matrix_cmd;	/* matrix: the command to issue */
static const char *world_action;	/* matrix: what the outside world does between read and write */
static const char *matrix_pre;		/* matrix: a command issued (and allowed) between the world's action and the command under test */
static int learn_fd = -1;	/* >= 0: only log the call sequence of the command and dump it there */

struct site { int kind, nth; long req; };
static void learn_dump(void)
{
	int cnt[5] = {0}, q;
	for (q = 0; q < nvx_nlog; q++) {
		struct site st2 = {nvx_log[q].kind, cnt[nvx_log[q].kind]++, nvx_log[q].req};
		if (st2.kind == FK_OPEN || st2.kind == FK_WRITE || st2.kind == FK_CLOSE)
			if (__real_write(learn_fd, &st2, sizeof(st2)) < 0)
				_exit(3);
	}
	_exit(0);
}

static void make_shapes(void)
{
	int i, j;
	char *s;
	shape_text[0] = strdup("");
	shape_text[1] = strdup("hello\n");
	s = malloc(3 * 2001 + 1);
	for (i = 0; i < 3; i++) {
		for (j = 0; j < 2000; j++)
			s[i * 2001 + j] = 'a' + (i + j) % 26;
		s[i * 2001 + 2000] = '\n';
	}
	s[3 * 2001] = '\0';
	shape_text[2] = s;
	s = malloc(5002);
	for (j = 0; j < 5000; j++)
		s[j] = 'A' + j % 26;
	s[5000] = '\n';
	s[5001] = '\0';
	shape_text[3] = s;
	s = malloc(2001 + 5001 + 11 + 1);
	for (j = 0; j < 2000; j++)
		s[j] = 'p';
	s[2000] = '\n';
	for (j = 0; j < 5000; j++)
		s[2001 + j] = 'q';
	s[7001] = '\n';
	memcpy(s + 7002, "0123456789\n", 12);
	shape_text[4] = s;
}

static char *bufbytes(void)
{
	return exh_text(xb);
}

static void fail(const char *slug, const char *fmt, ...)
{
	char msg[2048];
	va_list ap;
	va_start(ap, fmt);
	vsnprintf(msg, sizeof(msg), fmt, ap);
	va_end(ap);
	nv_viol(slug, "kind=faults %s: %s", casedesc, msg);
}

static int target_is(const char *want)
{
	struct vfile *f = vfs_find(target);
	if (!want)
		return !f || !f->exists;
	return f && f->exists && f->len == (long) strlen(want) && !memcmp(f->data, want, f->len);
}

static void nx_choice(void)
{
	char *out = nvx_exout ? nvx_exout : "";
	switch (phase) {
	case 0: {
		/* the buffer is loaded and modified: arm the plan and issue the command */
		char cmd[64];
		struct vfile *f = vfs_find(target);
		expect = bufbytes();
		pre_target = f && f->exists ? strdup(f->data) : NULL;
		pre_target_mtime = f && f->exists ? f->mtime : -1;
		nvx_exout_reset();
		vfs_tick(5);
		if (world_action && !strcmp(world_action, "change")) {
			vfs_put("f", "changed by someone else\n", -1);
		} else if (world_action && !strcmp(world_action, "delete")) {
			vfs_remove("f");
		} else if (world_action && !strcmp(world_action, "create")) {
			vfs_put("f", "appeared meanwhile\n", -1);
		}
		if (world_action) {
			struct vfile *f2 = vfs_find(target);
			free(pre_target);
			pre_target = f2 && f2->exists ? strdup(f2->data) : NULL;
			pre_target_mtime = f2 && f2->exists ? f2->mtime : -1;
			vfs_tick(5);
		}
		nvx_plan_arm();
		if (matrix_pre && matrix_pre[0]) {
			snprintf(cmd, sizeof(cmd), "%s\n", matrix_pre);
			nvx_feed(cmd, -1);
			phase = 10;
			return;
		}
		snprintf(cmd, sizeof(cmd), "%s\n", matrix_cmd ? matrix_cmd : cmds[c_cmd]);
		nvx_feed(cmd, -1);
		phase = 1;
		return;
	}
	case 10: {
		/* the intermediate command (a write to another path) came back: it must have succeeded and must
		 * not have touched the protected file; now the command under test */
		char cmd[64];
		struct vfile *f = vfs_find(target);
		if (matrix_pre[0] == 'w' || matrix_pre[0] == '1')
			if (!(strstr(out, "[w]") && !strstr(out, "failed")))
				fail("c03-guard", "the intermediate command %s did not succeed (output \"%s\")", matrix_pre, nv_esc(out, -1));
		if (!target_is(pre_target) || (f && f->exists && f->mtime != pre_target_mtime))
			fail("c03-guard", "the intermediate command %s modified the protected file", matrix_pre);
		nvx_exout_reset();
		vfs_tick(5);
		snprintf(cmd, sizeof(cmd), "%s\n", matrix_cmd);
		nvx_feed(cmd, -1);
		phase = 1;
		return;
	}
	case 1: {
		int i;
		/* the command came back: did it report success? */
		if (learn_fd >= 0)
			learn_dump();
		nvx_logging = 0;
		had_error = 0;
		for (i = 0; i < nvx_nplan; i++)
			if ((nvx_plan_fired & (1 << i)) && nvx_plan[i].count < 0)
				had_error = 1;
		reported_ok = strstr(out, "[w]") != NULL && !strstr(out, "failed");
		nv_stat("transitions", 1);
		if (matrix_mode) {
			struct vfile *f = vfs_find(target);
			if (expect_refused) {
				if (!strstr(out, "write failed"))
					fail("c03-guard", "the write was not refused with a 'write failed' message (output \"%s\")", nv_esc(out, -1));
				if (!target_is(pre_target) || (f && f->exists && f->mtime != pre_target_mtime))
					fail("c03-guard", "the protected file was modified (bytes or modification time changed)%s", "");
			} else {
				if (!reported_ok)
					fail("c03-guard", "the write was refused although it is allowed here (output \"%s\")", nv_esc(out, -1));
				else if (!target_is(expect))
					fail("c03-bytes", "success was reported but the file does not hold exactly the buffer lines%s", "");
			}
		} else if (had_error && reported_ok) {
			fail("c03-unreported", "an error answer was injected but the command reported success (output \"%s\")", nv_esc(out, -1));
		} else if (!had_error && !reported_ok) {
			fail("c03-spurious", "no error answer was injected (short counts only) but the command did not report success (output \"%s\")", nv_esc(out, -1));
		} else if (reported_ok && !target_is(expect)) {
			fail("c03-bytes", "success was reported but the file does not hold exactly the written lines%s", "");
		} else if (!reported_ok && !strstr(out, "write failed")) {
			fail("c03-nomessage", "the write failed without a 'write failed' message (output \"%s\")", nv_esc(out, -1));
		}
		nvx_nplan = 0;		/* no more faults */
		nvx_exout_reset();
		nvx_feed("q\nec SENTINEL\n", -1);
		phase = 2;
		return;
	}
	case 2:
		/* still alive after q: the buffer is considered modified */
		if (!strstr(out, "SENTINEL")) {
			nv_err("sentinel missing although the editor is alive");
			_exit(2);
		}
		if (reported_ok && !matrix_mode && c_cmd != 2 && c_cmd != 3)
			fail("c03-dirty-after-success", "the write to the buffer's own file succeeded but q is still refused (\"%s\")", nv_esc(out, -1));
		/* a fault-free retry must succeed with exact bytes */
		nvx_exout_reset();
		/* a failed xa leaves the editor in the buffer whose write failed: retry there */
		if (target[0] != 'g')
			target = strdup(exh_curpath());
		nvx_feed(target[0] == 'g' ? "w! g\n" : "w!\n", -1);
		phase = 3;
		return;
	case 3: {
		char *now = bufbytes();
		if (!(strstr(out, "[w]") && !strstr(out, "failed")))
			fail("c03-retry", "a fault-free retry with w! did not succeed (\"%s\")", nv_esc(out, -1));
		else if (!target_is(now))
			fail("c03-retry", "after the retry the file does not hold exactly the buffer lines%s", "");
		free(now);
		nvx_feed("q!\n", -1);
		phase = 4;
		return;
	}
	default:
		nv_err("editor asks for input after q!");
		_exit(2);
	}
}

/* runs in the child after nv_main returned */
static void at_exit_checks(void)
{
	if (learn_fd >= 0)
		learn_dump();
	if (phase == 1) {
		/* the command itself made the editor quit (wq, x, xa) or phase-1 never ran */
		int i;
		char *out = nvx_exout ? nvx_exout : "";
		had_error = 0;
		for (i = 0; i < nvx_nplan; i++)
			if ((nvx_plan_fired & (1 << i)) && nvx_plan[i].count < 0)
				had_error = 1;
		nv_stat("transitions", 1);
		if (c_cmd < 4) {
			fail("c03-exit", "the editor exited on a plain write command%s", "");
			return;
		}
		if (had_error)
			fail("c03-unreported", "an error answer was injected but %s quit the editor (output \"%s\")", cmds[c_cmd], nv_esc(out, -1));
		else if (!target_is(expect))
			fail("c03-bytes", "%s quit but the file does not hold exactly the buffer lines", cmds[c_cmd]);
		if (expect2) {
			struct vfile *f = vfs_find("f2");
			if (!had_error && !(f && f->exists && f->len == (long) strlen(expect2) && !memcmp(f->data, expect2, f->len)))
				fail("c03-bytes", "%s quit but the second file does not hold exactly its buffer lines", cmds[c_cmd]);
		}
	} else if (phase == 2) {
		/* q was accepted */
		if (!reported_ok && !matrix_mode)
			fail("c03-lost", "the write failed but q was accepted: the modified buffer was discarded%s", "");
		if (matrix_mode && expect_refused)
			fail("c03-lost", "the write was refused but q was accepted: the modified buffer was discarded%s", "");
	}
}

static long n_exec;
static void run_exec(const char *setup, int two_buffers)
{
	pid_t pid;
	int st;
	fflush(nv_out);
	n_exec++;
	pid = fork();
	if (!pid) {
		char *argv[] = {"vi", "-s", "-e", "f", NULL};
		nvx_feed(setup, -1);
		phase = 0;
		signal(SIGALRM, nv_guard_alarm);
		snprintf(nv_guard_desc, sizeof(nv_guard_desc), "%s", casedesc);
		snprintf(nv_guard_slug, sizeof(nv_guard_slug), "c03-hang");
		alarm(20);
		(void) two_buffers;
		nv_main(4, argv);
		alarm(0);
		at_exit_checks();
		nv_flush_stats();
		fflush(nv_out);
		_exit(0);
	}
	while (waitpid(pid, &st, 0) < 0)
		;
	if (WIFSIGNALED(st))
		nv_viol("c03-crash", "kind=faults %s: the editor died with signal %d", casedesc, WTERMSIG(st));
	else if (WIFEXITED(st) && WEXITSTATUS(st) == 2)
		nv_err("harness error in case: %s", casedesc);
}

static struct site sites[64];
static int nsites;

/* the call sequence of the command without faults, learnt from a logged run in a child */
static void learn_sites(const char *setup)
{
	int pfd[2];
	pid_t pid;
	int st;
	if (pipe(pfd))
		return;
	fflush(nv_out);
	pid = fork();
	if (!pid) {
		char *argv[] = {"vi", "-s", "-e", "f", NULL};
		__real_close(pfd[0]);
		learn_fd = pfd[1];
		nvx_nplan = 0;
		nvx_feed(setup, -1);
		phase = 0;
		alarm(20);
		nv_main(4, argv);
		at_exit_checks();
		_exit(0);
	}
	__real_close(pfd[1]);
	nsites = 0;
	while (nsites < 64 && __real_read(pfd[0], &sites[nsites], sizeof(sites[0])) == sizeof(sites[0]))
		nsites++;
	__real_close(pfd[0]);
	while (waitpid(pid, &st, 0) < 0)
		;
}

static int variants(struct site *s, struct nvx_fault *out)
{
	int n = 0;
	if (s->kind == FK_OPEN) {
		out[n++] = (struct nvx_fault) {FK_OPEN, s->nth, -1, EACCES};
	} else if (s->kind == FK_CLOSE) {
		out[n++] = (struct nvx_fault) {FK_CLOSE, s->nth, -1, EIO};
	} else {
		out[n++] = (struct nvx_fault) {FK_WRITE, s->nth, -1, ENOSPC};
		out[n++] = (struct nvx_fault) {FK_WRITE, s->nth, -1, EIO};
		out[n++] = (struct nvx_fault) {FK_WRITE, s->nth, -1, EINTR};
		if (s->req > 1)
			out[n++] = (struct nvx_fault) {FK_WRITE, s->nth, 1, 0};
		if (s->req / 2 > 1)
			out[n++] = (struct nvx_fault) {FK_WRITE, s->nth, s->req / 2, 0};
		if (s->req - 1 > 1 && s->req - 1 != s->req / 2)
			out[n++] = (struct nvx_fault) {FK_WRITE, s->nth, s->req - 1, 0};
	}
	return n;
}

static const char *fault_str(struct nvx_fault *f)
{
	static char b[4][64];
	static int c;
	char *s = b[c++ & 3];
	snprintf(s, 64, "%s#%d->%s%ld", f->kind == FK_OPEN ? "open" : f->kind == FK_WRITE ? "write" : "close", f->nth,
		f->count < 0 ? "errno " : "short ", f->count < 0 ? (long) f->err : f->count);
	return s;
}

static long caseidx;
static int mine(void)
{
	return (caseidx++ % nv_nshards) == nv_shard;
}

int main(int argc, char **argv)
{
	int k, s, c, i, j, a, b;
	nv_init(argc, argv);
	k = atoi(nv_arg(argc, argv, "k", nv_thorough ? "2" : "2"));
	make_shapes();
	setenv("EXINIT", "", 1);
	for (s = 0; s < 5; s++)
		for (c = 0; c < NCMD; c++) {
			char setup[256];
			int two = c == 6 || c == 8;
			struct nvx_fault v1[8], v2[8];
			int n1, n2;
			c_shape = s;
			c_cmd = c;
			target = (c == 2 || c == 3) ? "g" : "f";
			matrix_mode = 0;
			expect2 = NULL;
			/* files: f = the shape; xa: a second modified buffer f2 */
			vfs_n = 0;
			vfs_clock = 1000;
			vfs_put("f", shape_text[s], -1);
			vfs_put("f2", "second\n", -1);
			if (two) {
				snprintf(setup, sizeof(setup), "$a\nmod\n.\ne! f2\n$a\nmod2\n.\ne! f\n");
				expect2 = "second\nmod2\n";
			} else {
				snprintf(setup, sizeof(setup), "$a\nmod\n.\n");
			}
			snprintf(casedesc, sizeof(casedesc), "shape=(%s) cmd=%s faults=none", shape_names[s], cmds[c]);
			learn_sites(setup);
			if (!nsites) {
				nv_err("no call sequence learnt for %s", casedesc);
				continue;
			}
			if (mine()) {
				nvx_nplan = 0;
				run_exec(setup, two);
				if (n_exec <= 2 && nv_shard == 0)
					nv_sample("%s: call sequence of %d open/write/close calls; then every placement of <=%d faults (open EACCES; write ENOSPC/EIO/EINTR/short 1,n/2,n-1; close EIO), each followed by q+sentinel and a fault-free w! retry", casedesc, nsites, k);
			}
			/* k = 1 */
			for (i = 0; i < nsites; i++) {
				n1 = variants(&sites[i], v1);
				for (a = 0; a < n1; a++) {
					if (mine() && !nv_expired_now()) {
						nvx_nplan = 1;
						nvx_plan[0] = v1[a];
						snprintf(casedesc, sizeof(casedesc), "shape=(%s) cmd=%s faults=[%s]", shape_names[s], cmds[c], fault_str(&v1[a]));
						run_exec(setup, two);
						nv_stat("single_fault_runs", 1);
					}
					if (k < 2 || (v1[a].count < 0 && 0))
						continue;
					/* k = 2: a second fault at a later site (indices shift by one after a short write) */
					for (j = i; j < nsites + 1; j++) {
						struct site s2 = j < nsites ? sites[j] : sites[nsites - 1];
						if (j == i && !(v1[a].kind == FK_WRITE && v1[a].count > 0))
							continue;	/* the same call can only be hit again as the retry of a short write */
						if (j == i || (v1[a].kind == FK_WRITE && v1[a].count > 0 && s2.kind == FK_WRITE && j > i))
							s2.nth = (j == i ? sites[i].nth : s2.nth) + 1;	/* the retry / shifted index */
						if (j == nsites && s2.kind != FK_WRITE)
							continue;
						n2 = variants(&s2, v2);
						for (b = 0; b < n2; b++) {
							if (!mine() || nv_expired_now())
								continue;
							nvx_nplan = 2;
							nvx_plan[0] = v1[a];
							nvx_plan[1] = v2[b];
							snprintf(casedesc, sizeof(casedesc), "shape=(%s) cmd=%s faults=[%s, %s]", shape_names[s], cmds[c], fault_str(&v1[a]), fault_str(&v2[b]));
							run_exec(setup, two);
							nv_stat("double_fault_runs", 1);
						}
					}
				}
			}
		}
	/* ---- guard matrix: target existence x identity x modification time, no faults ------------------------- */
	{
		static const struct { const char *desc, *cmd; int refused; const char *world; const char *pre; } mx[] = {
			{"edited file exists, same mtime", "w", 0, "none"},
			{"edited file rewritten after it was read (newer mtime)", "w", 1, "change"},
			{"edited file rewritten after it was read (newer mtime), forced", "w!", 0, "change"},
			{"other path, file exists (foreign)", "w g", 1, "none"},
			{"other path, file exists (foreign), forced", "w! g", 0, "none"},
			{"other path, file absent", "w g", 0, "none"},
			{"edited file deleted meanwhile", "w", 0, "delete"},
			{"new file that appeared meanwhile", "w", 1, "create"},
			{"new file that appeared meanwhile, forced", "w!", 0, "create"},
			{"new file, still absent", "w", 0, "none"},
			{"edited file rewritten (newer), wq", "wq", 1, "change"},
			{"edited file rewritten (newer), x", "x", 1, "change"},
			{"foreign exists, wq g", "wq g", 1, "none"},
			{"edited file rewritten (newer), wq!", "wq!", 0, "change"},
			/* the guard must survive an allowed write to another path in between */
			{"edited file rewritten after it was read (newer mtime), after w h", "w", 1, "change", "w h"},
			{"edited file rewritten after it was read (newer mtime), after w! h", "w", 1, "change", "w! h"},
			{"edited file rewritten after it was read (newer mtime), after 1,1w h", "w", 1, "change", "1,1w h"},
			{"new file that appeared meanwhile, after w h", "w", 1, "create", "w h"},
			{"edited file rewritten (newer), after w h, x", "x", 1, "change", "w h"},
			{"edited file exists, same mtime, after w h", "w", 0, "none", "w h"},
			{"edited file deleted meanwhile, after w h", "w", 0, "delete", "w h"},
			/* coming back to the open buffer by name does not read the file again, so the guard must stay armed */
			{"edited file rewritten after it was read (newer mtime), after e! f", "w", 1, "change", "e! f"},
			{"edited file rewritten after it was read (newer mtime), after e! h and e! f", "w", 1, "change", "e! h|e! f"},
			{"edited file exists, same mtime, after e! f", "w", 0, "none", "e! f"},
		};
		int m;
		for (s = 1; s < 5; s += 3)
			for (m = 0; m < (int) (sizeof(mx) / sizeof(mx[0])); m++) {
				char setup[128];
				pid_t pid;
				int st;
				if (!mine())
					continue;
				snprintf(casedesc, sizeof(casedesc), "matrix: %s; shape=(%s) cmd=%s", mx[m].desc, shape_names[s], mx[m].cmd);
				fflush(nv_out);
				n_exec++;
				pid = fork();
				if (!pid) {
					char *av[] = {"vi", "-s", "-e", "f", NULL};
					int newfile = strstr(mx[m].desc, "new file") != NULL;
					static char cmdbuf[32];
					vfs_n = 0;
					vfs_clock = 1000;
					if (!newfile)
						vfs_put("f", shape_text[s], -1);
					if (strstr(mx[m].desc, "foreign"))
						vfs_put("g", "precious\n", -1);
					nvx_feed("$a\nmod\n.\n", -1);
					matrix_mode = m + 1;
					expect_refused = mx[m].refused;
					target = strstr(mx[m].cmd, " g") ? "g" : "f";
					/* the outside world acts between the read and the write (phase 0) */
					world_action = mx[m].world;
					matrix_pre = mx[m].pre;
					snprintf(cmdbuf, sizeof(cmdbuf), "%s", mx[m].cmd);
					matrix_cmd = cmdbuf;
					phase = 0;
					signal(SIGALRM, nv_guard_alarm);
					snprintf(nv_guard_desc, sizeof(nv_guard_desc), "%s", casedesc);
					snprintf(nv_guard_slug, sizeof(nv_guard_slug), "c03-hang");
					alarm(20);
					nv_main(4, av);
					alarm(0);
					/* exits: wq/x that were refused must not quit */
					if (phase == 1 && expect_refused)
						fail("c03-guard", "%s quit although the write had to be refused", mx[m].cmd);
					else if (phase == 2 && expect_refused)
						fail("c03-lost", "the write was refused but q was accepted%s", "");
					nv_stat("transitions", 1);
					nv_flush_stats();
					fflush(nv_out);
					_exit(0);
				}
				while (waitpid(pid, &st, 0) < 0)
					;
				if (WIFSIGNALED(st))
					nv_viol("c03-crash", "kind=faults %s: the editor died with signal %d", casedesc, WTERMSIG(st));
				nv_stat("matrix_runs", 1);
			}
	}
	nv_stat("executions", n_exec);
	nv_stat("states", n_exec);
	nv_stat("evaluations", n_exec);
	nv_stat("distinct_nontrivial", n_exec);
	nv_stat("max:deviation_bound", k);
	return nv_finish();
}
