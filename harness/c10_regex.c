/* C10: regex matches are genuine, leftmost, greedy/left-biased, with right group spans (library level) */
#include "nvh.h"
#include "vi.h"

extern int nv_re_depthhit;

#include "refre_build.h"

/* ---- subjects ---------------------------------------------------------------------------------- */
static const char *salpha[] = {"a", "b", "B", " ", "\xc3\xa9"};
#define NSA 5
static char (*subjects)[16];
static long nsubj;

static void gen_subjects(int maxn)
{
	long cnt = 0, k, tot = 0, c;
	int n, i;
	for (n = 0, c = 1; n <= maxn; n++, c *= NSA)
		tot += c;
	subjects = malloc(tot * sizeof(subjects[0]));
	for (n = 0, cnt = 1; n <= maxn; n++, cnt *= NSA)
		for (k = 0; k < cnt; k++) {
			long v = k;
			char *d = subjects[nsubj++];
			d[0] = '\0';
			for (i = 0; i < n; i++) {
				strcat(d, salpha[v % NSA]);
				v /= NSA;
			}
			strcat(d, "\n");
		}
}

static struct nv_set outcomes;
static long n_match, n_nomatch, n_firstparse, n_depthskipped;

static void fmt_grps(char *b, int *g, int n)
{
	int i;
	b[0] = '\0';
	for (i = 0; i < n; i++)
		sprintf(b + strlen(b), "(%d,%d)", g[i * 2], g[i * 2 + 1]);
}

/* compare engine and reference on one compiled pattern and subject */
static void compare(const char *pat, const struct rr_ast *a, int nullstar, struct rset *rs,
		const char *subj, int icase, int notbol, int noteol, int set_expected, const char *what)
{
	struct rr_subj sj;
	struct rr_mat M;
	int eg[RR_MAXGRP * 2], rg[RR_MAXGRP * 2];
	int ng = a->ngrp + 1 < RR_MAXGRP ? a->ngrp + 1 : RR_MAXGRP;
	int flg = (notbol ? RE_NOTBOL : 0) | (noteol ? RE_NOTEOL : 0);
	int i, r, so_p = -1, eo_p = -1, any = 0, first_start = -1;
	char b1[256], b2[256];
	rr_subj_init(&sj, subj, icase, notbol, noteol);
	for (i = 0; i < RR_MAXGRP * 2; i++)
		eg[i] = -7;
	nv_re_depthhit = 0;
	r = rset_find(rs, (char *) subj, ng, eg, flg);
	rr_spans(a, a->root, &sj, &M);
	for (i = 0; i < sj.np; i++)
		if (M.r[i]) {
			any = 1;
			if (first_start < 0)
				first_start = i;
		}
	nv_stat("transitions", 1);
#define BAD(slug, fmtx, ...) do { nv_viol(slug, "kind=%s pattern=\"%s\" subject=\"%s\" icase=%d notbol=%d noteol=%d " fmtx, what, \
		nv_esc(pat, -1), nv_esc(subj, -1), icase, notbol, noteol, __VA_ARGS__); return; } while (0)
	if (!nullstar && nv_re_depthhit)
		BAD("c10-depth", "recursion limit hit %d times on a tiny input without nullable repetition", nv_re_depthhit);
	if (r >= 0) {
		n_match++;
		if (set_expected >= 0 && r != set_expected)
			BAD("c10-set-index", "reported index %d expected %d", r, set_expected);
		for (i = 0; i < sj.np; i++) {
			if (sj.off[i] == eg[0])
				so_p = i;
			if (sj.off[i] == eg[1])
				eo_p = i;
		}
		if (so_p < 0 || eo_p < 0 || eo_p < so_p)
			BAD("c10-offsets", "span (%d,%d) not on character boundaries / not ordered", eg[0], eg[1]);
		if (!(M.r[so_p] >> eo_p & 1))
			BAD("c10-genuine", "reported span (%d,%d) is not a string the pattern matches there", eg[0], eg[1]);
		if (first_start >= 0 && first_start < so_p)
			BAD("c10-leftmost", "reported start %d but a match exists from %d", eg[0], sj.off[first_start]);
	} else {
		n_nomatch++;
		if (any && !nv_re_depthhit)
			BAD("c10-missed", "no match reported but the pattern matches from %d", sj.off[first_start]);
	}
	if (nv_re_depthhit) {
		n_depthskipped++;
		return;
	}
	if (!nullstar) {
		int rr = rr_first(a, &sj, rg, ng);
		n_firstparse++;
		if (rr != (r >= 0))
			BAD("c10-firstparse", "engine %s, reference first-parse %s", r >= 0 ? "matched" : "no match", rr ? "matched" : "no match");
		if (rr) {
			for (i = 0; i < ng * 2; i++)
				if (eg[i] != rg[i]) {
					fmt_grps(b1, eg, ng);
					fmt_grps(b2, rg, ng);
					BAD("c10-parse", "spans %s, greedy/left-biased reference %s", b1, b2);
				}
		}
	}
	if (r >= 0) {
		unsigned long long h = nv_hash(pat, strlen(pat), 0);
		h = nv_hash(eg, ng * 2 * sizeof(int), h);
		h = nv_hash(subj, strlen(subj), h);
		nv_set_add(&outcomes, h);
	}
#undef BAD
}

/* wrap a pattern AST the way rset_make does: the caller's groups are numbered from 1 */
static void run_pattern(const char *code, long *npat)
{
	struct rr_ast a;
	char pat[128] = "";
	char *pp = pat;
	int root, icase, nb, ne, nullstar;
	long k;
	struct rset *rs;
	memset(&a, 0, sizeof(a));
	build(&a, code, &root);
	a.root = root;
	print(code, pat);
	nullstar = rr_nullable_star(&a, a.root);
	nv_guard(60, "c10-hang", "pattern=\"%s\" against the %ld subjects", nv_esc(pat, -1), nsubj);
	for (icase = 0; icase < 2; icase++) {
		rs = rset_make(1, &pp, icase ? RE_ICASE : 0);
		if (!rs) {
			nv_viol("c10-compile", "kind=ast pattern=\"%s\" from the accepted grammar failed to compile", nv_esc(pat, -1));
			return;
		}
		for (k = 0; k < nsubj; k++)
			for (nb = 0; nb < 2; nb++)
				for (ne = 0; ne < 2; ne++)
					compare(pat, &a, nullstar, rs, subjects[k], icase, nb, ne, 0, "ast");
		rset_free(rs);
	}
	(*npat)++;
	if (*npat <= 2 && nv_shard == 0)
		nv_sample("pattern \"%s\" (prefix code %s) x %ld subjects x icase x notbol x noteol", nv_esc(pat, -1), code, nsubj);
}

/* ---- pattern sets: index reporting and group renumbering -------------------------------------- */
static void run_sets(int maxsz)
{
	long x, y, z, cnt = 0;
	int s1, s2;
	/* pairs of patterns of size <= maxsz, optionally with an unused (NULL) slot in front or between */
	for (s1 = 1; s1 <= maxsz; s1++)
		for (s2 = 1; s2 <= maxsz; s2++)
			for (x = 0; x < alt[s1].n; x++)
				for (y = 0; y < alt[s2].n; y++) {
					int hole;
					if ((cnt++ % nv_nshards) != nv_shard)
						continue;
					if (nv_expired())
						return;
					for (hole = 0; hole < 3; hole++) {
						/* reference: A(G(p1), G(p2)) with p1's groups first */
						struct rr_ast a;
						char p1[64] = "", p2[64] = "", comb[160];
						char *pats[3];
						int n = 0, idx1, idx2, r1, r2, g1, g2, icase;
						struct rset *rs;
						long k;
						int nb, ne;
						print(alt[s1].v[x], p1);
						print(alt[s2].v[y], p2);
						nv_guard(60, "c10-hang", "pattern set {%s , %s}", nv_esc(p1, -1), nv_esc(p2, -1));
						memset(&a, 0, sizeof(a));
						/* node 0: ALT, node 1: GRP(p1), then p1, node: GRP(p2), p2 */
						a.cnt = 1;
						a.n[0].kind = RK_ALT;
						g1 = a.cnt++;
						a.n[g1].kind = RK_GRP;
						a.n[g1].grp = ++a.ngrp;
						build(&a, alt[s1].v[x], &r1);
						a.n[g1].l = r1;
						g2 = a.cnt++;
						a.n[g2].kind = RK_GRP;
						a.n[g2].grp = ++a.ngrp;
						build(&a, alt[s2].v[y], &r2);
						a.n[g2].l = r2;
						a.n[0].l = g1;
						a.n[0].r = g2;
						a.root = 0;
						if (hole == 1)
							pats[n++] = NULL;
						idx1 = n;
						pats[n++] = p1;
						if (hole == 2)
							pats[n++] = NULL;
						idx2 = n;
						pats[n++] = p2;
						snprintf(comb, sizeof(comb), "{%s%s , %s%s}", hole == 1 ? "NULL , " : "", p1, hole == 2 ? "NULL , " : "", p2);
						for (icase = 0; icase < 2; icase++) {
							rs = rset_make(n, pats, icase ? RE_ICASE : 0);
							if (!rs) {
								nv_viol("c10-compile", "kind=set patterns=%s failed to compile", nv_esc(comb, -1));
								continue;
							}
							for (k = 0; k < nsubj; k++)
								for (nb = 0; nb < 2; nb++)
									for (ne = 0; ne < 2; ne++) {
										/* engine view: index + groups of the matched alternative;
										 * reference view: first-parse of the alternation */
										struct rr_subj sj;
										int rg[RR_MAXGRP * 2], eg[RR_MAXGRP * 2];
										int ngall = a.ngrp + 1, rr, r, i, exp_idx, base_g, cntg;
										int nullstar = rr_nullable_star(&a, 0);
										for (i = 0; i < RR_MAXGRP * 2; i++)
											eg[i] = -7;
										nv_re_depthhit = 0;
										r = rset_find(rs, subjects[k], 4, eg, (nb ? RE_NOTBOL : 0) | (ne ? RE_NOTEOL : 0));
										nv_stat("transitions", 1);
										if (nv_re_depthhit || nullstar)
											continue;
										rr_subj_init(&sj, subjects[k], icase, nb, ne);
										rr = rr_first(&a, &sj, rg, ngall);
										if (rr != (r >= 0)) {
											nv_viol("c10-set-index", "kind=set patterns=%s subject=\"%s\" icase=%d notbol=%d noteol=%d engine index %d, reference %s",
												nv_esc(comb, -1), nv_esc(subjects[k], -1), icase, nb, ne, r, rr ? "matches" : "no match");
											continue;
										}
										if (!rr)
											continue;
										/* which alternative took part */
										exp_idx = rg[a.n[g1].grp * 2] >= 0 ? idx1 : idx2;
										base_g = exp_idx == idx1 ? a.n[g1].grp : a.n[g2].grp;
										cntg = exp_idx == idx1 ? a.n[g2].grp - a.n[g1].grp - 1 : a.ngrp - a.n[g2].grp;
										if (r != exp_idx) {
											nv_viol("c10-set-index", "kind=set patterns=%s subject=\"%s\" icase=%d notbol=%d noteol=%d engine index %d expected %d",
												nv_esc(comb, -1), nv_esc(subjects[k], -1), icase, nb, ne, r, exp_idx);
											continue;
										}
										for (i = 0; i < 4; i++) {
											int es = eg[i * 2], ee = eg[i * 2 + 1];
											int xs = i <= cntg ? rg[(base_g + i) * 2] : -1;
											int xe = i <= cntg ? rg[(base_g + i) * 2 + 1] : -1;
											if (es != xs || ee != xe) {
												nv_viol("c10-set-groups", "kind=set patterns=%s subject=\"%s\" icase=%d notbol=%d noteol=%d index %d group %d = (%d,%d) expected (%d,%d)",
													nv_esc(comb, -1), nv_esc(subjects[k], -1), icase, nb, ne, r, i, es, ee, xs, xe);
												break;
											}
										}
									}
							rset_free(rs);
						}
						nv_stat("sets", 1);
					}
				}
	(void) z;
}

/* ---- group accounting of the set wrapper: parentheses that are not groups ---------------------------- */
static void run_groupcount(void)
{
	/* first patterns that hold '(' or ')' as ordinary characters (escaped, or inside a bracket expression, also
	 * after a negation, a class name or a leading ']'), some with real groups next to them; none matches "bc" */
	static const char *first[] = {"\\(a", "a\\)", "[(]a", "[)]a", "[()]a", "[^(]x", "[^)b]x", "[[:alpha:](]x", "[](]x", "[^](]x",
		"\\[(x)", "\\\\(x)", "(x)[(]", "[(](x)", "\\((x)\\)", "[[:digit:]()]", "x[(](y)[)]", "[a(-)]x",
		"[[=a=](]x", "[^[:alpha:](]x", "[x[:digit:])(]y"};
	static const int real_groups[] = {0, 0, 0, 0, 0, 0, 0, 0, 0, 0, 1, 1, 1, 1, 1, 0, 1, 0, 0, 0, 0};
	unsigned i;
	int icase;
	if (nv_shard != 0)
		return;
	for (i = 0; i < sizeof(first) / sizeof(first[0]); i++)
		for (icase = 0; icase < 2; icase++) {
			char *pats[2];
			int g[16], k, r;
			struct rset *rs;
			static const int want[6] = {0, 2, 0, 1, 1, 2};
			pats[0] = (char *) first[i];
			pats[1] = "(b)(c)";
			rs = rset_make(2, pats, icase ? RE_ICASE : 0);
			nv_stat("sets", 1);
			nv_stat("transitions", 1);
			if (!rs) {
				nv_viol("c10-compile", "kind=set patterns={%s , (b)(c)} failed to compile", nv_esc(first[i], -1));
				continue;
			}
			for (k = 0; k < 16; k++)
				g[k] = -7;
			r = rset_find(rs, "bc\n", 4, g, 0);
			if (r != 1)
				nv_viol("c10-set-index", "kind=set patterns={%s , (b)(c)} subject=\"bc\" icase=%d engine index %d expected 1", nv_esc(first[i], -1), icase, r);
			else
				for (k = 0; k < 6; k++)
					if (g[k] != want[k]) {
						nv_viol("c10-set-groups", "kind=set patterns={%s , (b)(c)} subject=\"bc\" icase=%d: offsets (%d,%d)(%d,%d)(%d,%d), expected (0,2)(0,1)(1,2): "
							"the first pattern has %d group(s), its other parentheses are ordinary characters",
							nv_esc(first[i], -1), icase, g[0], g[1], g[2], g[3], g[4], g[5], real_groups[i]);
						break;
					}
			if (r == 1 && g[6] != -1 && g[6] != -7)
				nv_viol("c10-set-groups", "kind=set patterns={%s , (b)(c)} subject=\"bc\": a third group is reported (%d,%d)", nv_esc(first[i], -1), g[6], g[7]);
			rset_free(rs);
		}
}

/* ---- depth family: the documented recursion depth must be available --------------------------- */
static void run_depth(void)
{
	static const struct { const char *pat; int run; const char *unit; } fam[] = {
		{"a*", 200, "a"}, {"a*", 250, "a"}, {"a+b", 250, "a"}, {".*b", 250, "a"},
		{"(a|b)*", 120, "a"}, {"(a|b)*c", 120, "b"}, {"[ab]*", 250, "b"}, {"(a)*", 120, "a"},
	};
	unsigned i;
	for (i = 0; i < sizeof(fam) / sizeof(fam[0]); i++) {
		char subj[600] = "";
		char *pp = (char *) fam[i].pat;
		int g[8], r, k, tail = 0;
		struct rset *rs = rset_make(1, &pp, 0);
		for (k = 0; k < fam[i].run; k++)
			strcat(subj, fam[i].unit);
		if (strstr(fam[i].pat, "+b") || strstr(fam[i].pat, ".*b")) {
			strcat(subj, "b");
			tail = 1;
		}
		if (strstr(fam[i].pat, ")*c")) {
			strcat(subj, "c");
			tail = 1;
		}
		strcat(subj, "\n");
		nv_guard(60, "c10-hang", "depth family pattern=\"%s\" run=%d", fam[i].pat, fam[i].run);
		nv_re_depthhit = 0;
		r = rs ? rset_find(rs, subj, 2, g, 0) : -2;
		nv_stat("transitions", 1);
		if (r != 0 || g[0] != 0 || g[1] != fam[i].run + tail || nv_re_depthhit)
			nv_viol("c10-depth", "kind=depth pattern=\"%s\" run=%d result=%d span=(%d,%d) depth-limit hits=%d: a match within the documented recursion depth (256) was cut or missed",
				fam[i].pat, fam[i].run, r, g[0], g[1], nv_re_depthhit);
		if (rs)
			rset_free(rs);
	}
}

int main(int argc, char **argv)
{
	int maxsz, maxn, s, setsz;
	long x, npat = 0, idx = 0;
	nv_init(argc, argv);
	nv_crash_guard("c10-crash");
	maxsz = atoi(nv_arg(argc, argv, "size", nv_thorough ? "5" : "4"));
	maxn = atoi(nv_arg(argc, argv, "len", nv_thorough ? "4" : "3"));
	setsz = atoi(nv_arg(argc, argv, "setsize", "2"));
	nv_set_init(&outcomes, 1 << 20);
	gen(maxsz);
	gen_subjects(maxn);
	if (nv_shard == 0)
		run_depth();
	/* hand-written atoms outside the enumerated eleven: brackets with a multi-byte member, the class
	 * [:upper:] (whose meaning depends on ignore-case), alone and under the constructors */
	{
		static const char *extra[] = {"n", "o", "p", "q", "*n", "+o", "+p", "Cpq", "Cqp", "Apb", "Gp", "*Gq", "Cap", "C*pa", "?p", "1q", "Cno", "CGpGq"};
		unsigned e;
		for (e = 0; e < sizeof(extra) / sizeof(extra[0]); e++)
			if ((idx++ % nv_nshards) == nv_shard)
				run_pattern(extra[e], &npat);
	}
	for (s = 1; s <= maxsz; s++) {
		for (x = 0; x < alt[s].n; x++) {
			if ((idx++ % nv_nshards) != nv_shard)
				continue;
			if (nv_expired())
				goto out;
			run_pattern(alt[s].v[x], &npat);
		}
		nv_stat("max:ast_size_completed", s);
	}
	run_sets(setsz);
	run_groupcount();
out:
	alarm(0);
	nv_stat("patterns", npat);
	nv_stat("states", npat * nsubj);
	nv_stat("evaluations", n_match + n_nomatch);
	nv_stat("matches", n_match);
	nv_stat("nomatch", n_nomatch);
	nv_stat("firstparse_compared", n_firstparse);
	nv_stat("depth_limited_skipped", n_depthskipped);
	nv_stat("distinct_nontrivial", outcomes.n);
	nv_stat("max:subject_len", maxn);
	nv_stat("max:ast_size", maxsz);
	nv_histo("match", n_match);
	nv_histo("nomatch", n_nomatch);
	return nv_finish();
}
