/*
 * nvx.h: fork-snapshot depth-first exploration of the real editor, driven from inside the wrapped
 * read()/getc() (see nvenv.h for the environment).  Included once by each editor-level harness, which
 * defines the nx_* callbacks declared below.
 */
#ifndef NVX_H
#define NVX_H
#include "nvenv.h"

/* ===== explorer ====================================================================================== */
/* callbacks supplied by the harness */
static int nx_nops(void);				/* size of the alphabet */
static const char *nx_op_name(int k);			/* printable name of operation k */
static int nx_op_bytes(int k, char *buf, int max);	/* the input bytes of operation k */
static int nx_enabled(int k);				/* is operation k enabled in the current state? */
static void nx_at_state(void);				/* oracle at every choice point (depth >= 0) */
static unsigned long long nx_state_hash(void);		/* canonical state hash, 0 = no state matching */
static int nx_leaf_retries;				/* how often the quit sequence is offered again before "noquit" */
static int nx_leaf_bytes(char *buf, int max);		/* input that makes the editor quit at a leaf */
static void nx_at_exit(void);				/* the editor returned from nv_main */
static const char *nx_config_name(void);

#define NX_MAXDEPTH 24
struct nx_shared {
	long states, transitions, leaves, pruned, viols, exits, twins, distinct, hangs, crashes, traces, cut, samples;
	long hist[16];
	unsigned long long *table;
	long tabcap;
};
static struct nx_shared *nx_sh;
static int nx_depth;			/* operations executed so far in this process's history */
static int nx_bound;			/* depth bound */
static int nx_hist[NX_MAXDEPTH];	/* operation indices of the history */
static int nx_in_leaf;			/* the quit sequence has been fed */
static void (*nx_probe_fn)(void);	/* what a twin evaluates at its next choice point */
static int nx_replay_n = -1, nx_replay_ops[NX_MAXDEPTH];	/* replay mode: forced history */
static int nx_shard_div = 1, nx_shard_mod;	/* shard filter */
static int nx_shard_level = 1;		/* operations leaving states of this depth are split over the shards (-1: none) */
static int nx_horizon = 20;		/* seconds an operation may take */
static char nx_errpath[512];
static const char *nx_viol_slug = "explore";
static char nx_cfg_args[128];		/* what to pass as cfg=... (and core=/red=) to re-run this configuration */
static int nx_trace_every;		/* emit every n-th leaf as a TRACE line for conformance replay */
static void (*nx_pre_state)(void);	/* model update at a choice point, run before state matching and before nx_at_state() */
static void (*nx_op_effect)(int k);	/* harness-side effect of operation k (outside-world events), before its bytes are fed */
static int nx_exited;			/* the editor has returned from nv_main (seen by probes and nx_at_exit) */
static const char *(*nx_hist_name)(int i);	/* names of the outcome histogram classes */
static char nx_last_op_bytes[4096];
static int nx_last_op_len;

static void nx_history_str(char *b, int max)
{
	int i, o = 0;
	b[0] = '\0';
	for (i = 0; i < nx_depth && o < max - 80; i++)
		o += snprintf(b + o, max - o, "%s%s", i ? " ; " : "", nx_op_name(nx_hist[i]));
}

static void nx_history_ids(char *b, int max)
{
	int i, o = 0;
	b[0] = '\0';
	for (i = 0; i < nx_depth && o < max - 16; i++)
		o += snprintf(b + o, max - o, "%s%d", i ? "," : "", nx_hist[i]);
}

/* report a violation for the current history (one write, so that lines of concurrent children do not mix) */
static void nx_viol(const char *slug, const char *fmt, ...)
{
	char hist[2048], ids[256], msg[4096], line[8192];
	va_list ap;
	int n;
	long k = __sync_fetch_and_add(&nx_sh->viols, 1);
	if (k >= 40)
		return;
	nx_history_str(hist, sizeof(hist));
	nx_history_ids(ids, sizeof(ids));
	va_start(ap, fmt);
	vsnprintf(msg, sizeof(msg), fmt, ap);
	va_end(ap);
	n = snprintf(line, sizeof(line), "VIOL %s\tkind=history config=%s ops=%s args=\"%s ops=%s\" history=[%s] %s\n", slug, nx_config_name(), ids, nx_cfg_args, ids, hist, msg);
	fflush(nv_out);
	if (__real_write(fileno(nv_out), line, n) < 0)
		_exit(3);
}

static void nx_dev(const char *slug, const char *fmt, ...)
{
	char hist[2048], ids[256], msg[4096], line[8192];
	va_list ap;
	int n;
	nx_history_str(hist, sizeof(hist));
	nx_history_ids(ids, sizeof(ids));
	va_start(ap, fmt);
	vsnprintf(msg, sizeof(msg), fmt, ap);
	va_end(ap);
	n = snprintf(line, sizeof(line), "DEV %s\tkind=history config=%s ops=%s args=\"%s ops=%s\" history=[%s] %s\n", slug, nx_config_name(), ids, nx_cfg_args, ids, hist, msg);
	fflush(nv_out);
	if (__real_write(fileno(nv_out), line, n) < 0)
		_exit(3);
}

static void nx_alarm(int sig)
{
	(void) sig;
	__sync_fetch_and_add(&nx_sh->hangs, 1);
	nx_viol("hang", "the editor did not come back for input within %d s after the last operation (leaf=%d)", nx_horizon, nx_in_leaf);
	_exit(0);
}

/* visited-state table in shared memory: entry = (hash & ~0xff) | remaining-depth seen */
static int nx_visited(unsigned long long h, int remaining)
{
	unsigned long long key = (h & ~0xffull) | 1ull << 8;
	long i = (key * 0x9E3779B97F4A7C15ull >> 24) & (nx_sh->tabcap - 1);
	int probes = 0;
	while (probes++ < 64) {
		unsigned long long e = nx_sh->table[i];
		if (!e) {
			if (__sync_bool_compare_and_swap(&nx_sh->table[i], 0, key | (unsigned) remaining)) {
				__sync_fetch_and_add(&nx_sh->distinct, 1);
				return 0;
			}
			continue;
		}
		if ((e & ~0xffull) == key) {
			if ((int) (e & 0xff) >= remaining)
				return 1;		/* already explored with at least as much depth left */
			__sync_bool_compare_and_swap(&nx_sh->table[i], e, key | (unsigned) remaining);
			return 0;
		}
		i = (i + 1) & (nx_sh->tabcap - 1);
	}
	return 0;
}

static void nx_take(int k)
{
	char buf[4096];
	int n = nx_op_bytes(k, buf, sizeof(buf));
	nx_hist[nx_depth++] = k;
	if (nx_op_effect)
		nx_op_effect(k);
	memcpy(nx_last_op_bytes, buf, n);
	nx_last_op_len = n;
	nvx_feed(buf, n);
	nvx_exout_reset();
	nvx_splices = 0;
	alarm(nx_horizon);
}

static void nx_do_leaf(void)
{
	char buf[1024];
	int n = nx_leaf_bytes(buf, sizeof(buf));
	nx_in_leaf = 1;
	__sync_fetch_and_add(&nx_sh->leaves, 1);
	nvx_feed(buf, n);
	alarm(nx_horizon);
}

/*
 * run fn in a forked twin after feeding it input; the twin is thrown away.
 * Returns -1 in the twin itself (the caller must return into the editor at once), else its wait status.
 */
#define NX_TWIN(input, len, fn) do { if (nx_twin(input, len, fn) == -1) return; } while (0)
static int nx_twin(const char *input, int len, void (*fn)(void))
{
	pid_t pid;
	int st;
	fflush(nv_out);
	__sync_fetch_and_add(&nx_sh->twins, 1);
	pid = fork();
	if (pid < 0) {
		nv_err("fork failed (twin)");
		_exit(2);
	}
	if (!pid) {
		nx_probe = 1;
		nx_probe_fn = fn;
		nvx_feed(input, len);
		nvx_exout_reset();
		nvx_splices = 0;
		alarm(nx_horizon);
		return -1;		/* caller must return into the editor */
	}
	while (waitpid(pid, &st, 0) < 0)
		;
	if (WIFSIGNALED(st)) {
		__sync_fetch_and_add(&nx_sh->crashes, 1);
		nx_viol("crash", "twin probe \"%s\" died with signal %d", nv_esc(input, len), WTERMSIG(st));
	}
	return st;
}

static void nx_choice(void)
{
	int k, nops, remaining, matched = 0;
	unsigned long long h;
	alarm(0);
	if (nx_probe) {			/* a twin reached its next choice point: evaluate and vanish */
		if (nx_probe_fn)
			nx_probe_fn();
		fflush(nv_out);
		_exit(0);
	}
	if (nx_in_leaf && nx_in_leaf <= nx_leaf_retries) {
		/* the quit sequence was consumed as text (e.g. by an a/i/c inside :g): offer it again */
		char buf[1024];
		int n = nx_leaf_bytes(buf, sizeof(buf));
		nx_in_leaf++;
		nvx_feed(buf, n);
		alarm(nx_horizon);
		return;
	}
	if (nx_in_leaf) {
		/* the quit sequence did not end the editor: it asks for more input */
		nx_viol("noquit", "the editor asked for more input after the quit sequence%s", "");
		_exit(0);
	}
	if (nx_shard_level < 0 || nx_depth > nx_shard_level || nx_shard_mod == 0)
		__sync_fetch_and_add(&nx_sh->states, 1);
	if (nx_pre_state)		/* bring the reference model up to date (cheap), before state matching */
		nx_pre_state();
	if (nx_replay_n < 0 && nx_bound - nx_depth > 0) {
		h = nx_state_hash();
		if (h && nx_visited(h, nx_bound - nx_depth)) {
			__sync_fetch_and_add(&nx_sh->pruned, 1);
			_exit(0);
		}
		matched = 1;
	}
	nx_at_state();
	if (nx_probe)			/* nx_at_state() started a twin and this is it: go back into the editor */
		return;
	if (nx_replay_n >= 0) {
		if (nx_depth < nx_replay_n) {
			nx_take(nx_replay_ops[nx_depth]);
			return;
		}
		nx_do_leaf();
		return;
	}
	remaining = nx_bound - nx_depth;
	if (remaining <= 0 || nv_expired_now()) {
		if (remaining > 0)
			nx_sh->cut = 1;		/* deadline cut */
		nx_do_leaf();
		return;
	}
	if (!matched) {
		h = nx_state_hash();
		if (h && nx_visited(h, remaining)) {
			__sync_fetch_and_add(&nx_sh->pruned, 1);
			_exit(0);
		}
	}
	nops = nx_nops();
	for (k = 0; k < nops; k++) {
		pid_t pid;
		int st;
		if (!nx_enabled(k))
			continue;
		/* the deadline also ends the loop over the operations (an editor that hangs on every operation
		 * costs one horizon each); too many hangs end the exploration as well */
		if (nv_expired_now() || nx_sh->hangs > 40) {
			nx_sh->cut = 1;
			break;
		}
		if (nx_depth == nx_shard_level) {
			long idx = nx_depth == 0 ? k : (long) nx_hist[nx_depth - 1] * nops + k;
			if (idx % nx_shard_div != nx_shard_mod)
				continue;
		}
		if (nx_shard_level < 0 || nx_depth >= nx_shard_level || nx_shard_mod == 0)
			__sync_fetch_and_add(&nx_sh->transitions, 1);
		fflush(nv_out);
		pid = fork();
		if (pid < 0) {
			nv_err("fork failed");
			_exit(2);
		}
		if (!pid) {
			int efd = __real_open(nx_errpath, O_WRONLY | O_CREAT | O_TRUNC, 0600);
			if (efd >= 0) {
				dup2(efd, 2);
				__real_close(efd);
			}
			nx_take(k);
			return;
		}
		while (waitpid(pid, &st, 0) < 0)
			;
		if (WIFSIGNALED(st) || (WIFEXITED(st) && WEXITSTATUS(st) != 0)) {
			char rep[2000] = "";
			FILE *ef = fopen(nx_errpath, "r");
			if (ef) {
				size_t r = fread(rep, 1, sizeof(rep) - 1, ef);
				char *sum;
				rep[r] = '\0';
				fclose(ef);
				if ((sum = strstr(rep, "ERROR:")))
					memmove(rep, sum, strlen(sum) + 1);
				if (strlen(rep) > 1200)
					rep[1200] = '\0';
			}
			/* the child executing operation k died (its own children are reaped and reported by itself) */
			{
				int save = nx_depth;
				nx_hist[nx_depth++] = k;
				__sync_fetch_and_add(&nx_sh->crashes, 1);
				if (WIFSIGNALED(st))
					nx_viol("crash", "the editor died with signal %d while executing the last operation: %s", WTERMSIG(st), nv_esc(rep, -1));
				else if (WEXITSTATUS(st) == 2)
					nv_err("harness error in a child process");
				else
					nx_viol("crash", "the editor process exited with status %d while executing the last operation: %s", WEXITSTATUS(st), nv_esc(rep, -1));
				nx_depth = save;
			}
		}
	}
	_exit(0);
}

/* set up shared counters; call before nv_main */
static void nx_init(int argc, char **argv, int bound, long tabcap)
{
	const char *r = nv_arg(argc, argv, "ops", NULL);
	nx_sh = mmap(NULL, sizeof(*nx_sh), PROT_READ | PROT_WRITE, MAP_SHARED | MAP_ANONYMOUS, -1, 0);
	memset(nx_sh, 0, sizeof(*nx_sh));
	if (tabcap) {
		nx_sh->tabcap = tabcap;
		nx_sh->table = mmap(NULL, tabcap * sizeof(nx_sh->table[0]), PROT_READ | PROT_WRITE,
				MAP_SHARED | MAP_ANONYMOUS | MAP_NORESERVE, -1, 0);
	}
	nx_bound = bound;
	nx_shard_div = nv_nshards;
	nx_shard_mod = nv_shard;
	snprintf(nx_errpath, sizeof(nx_errpath), "%s.err", nv_arg(argc, argv, "out", "/tmp/nvx"));
	signal(SIGALRM, nx_alarm);
	if (r) {
		nx_replay_n = 0;
		while (*r && nx_replay_n < NX_MAXDEPTH) {
			nx_replay_ops[nx_replay_n++] = atoi(r);
			while (*r && *r != ',')
				r++;
			if (*r == ',')
				r++;
		}
		nx_shard_div = 1;
		nx_shard_mod = 0;
	}
}

static void nx_trace_snapshot(int argc, char **argv);
static void nx_emit_trace(void);

/* run one exploration from the current (freshly initialised) process state; returns in the root process only */
static void nx_run(int argc_ed, char **argv_ed)
{
	pid_t pid;
	int st;
	fflush(nv_out);
	pid = fork();
	if (pid < 0) {
		nv_err("fork failed");
		exit(2);
	}
	if (!pid) {
		int keep = nvx_fedlen;
		nx_depth = 0;
		nx_in_leaf = 0;
		nx_trace_snapshot(argc_ed, argv_ed);
		nvx_fedlen = keep;		/* the set-up input fed before nx_run belongs to the trace */
		alarm(nx_horizon);		/* start-up and the set-up input are under the horizon too */
		nv_main(argc_ed, argv_ed);
		alarm(0);
		nx_exited = 1;
		if (!nx_probe) {
			__sync_fetch_and_add(&nx_sh->exits, 1);
			nx_at_exit();
			if (nx_in_leaf)
				nx_emit_trace();
			/* a few complete histories of this run, written out, for the evidence file */
			if (nx_in_leaf && nx_depth > 0 && __sync_fetch_and_add(&nx_sh->samples, 1) % 4099 == 7) {
				char hist[1024], line[1400];
				int n;
				nx_history_str(hist, sizeof(hist));
				n = snprintf(line, sizeof(line), "SAMPLE explored history: config=%s ops=[%s] (%d operations, then the quit sequence; every intermediate state checked)\n",
					nx_config_name(), hist, nx_depth);
				fflush(nv_out);
				if (__real_write(fileno(nv_out), line, n) < 0)
					_exit(3);
			}
		} else if (nx_probe_fn) {
			nx_probe_fn();
		}
		fflush(nv_out);
		_exit(0);
	}
	while (waitpid(pid, &st, 0) < 0)
		;
	nvx_fedlen = 0;
	if (WIFSIGNALED(st))
		nv_viol("crash", "kind=history config=%s the root exploration process died with signal %d", nx_config_name(), WTERMSIG(st));
	else if (WIFEXITED(st) && WEXITSTATUS(st) == 2)
		nv_err("exploration root exited with a harness error");
}

static void nx_report(void)
{
	int i;
	nv_stat("states", nx_sh->states);
	nv_stat("transitions", nx_sh->transitions);
	nv_stat("leaves", nx_sh->leaves);
	nv_stat("pruned_revisits", nx_sh->pruned);
	nv_stat("editor_exits", nx_sh->exits);
	nv_stat("twin_probes", nx_sh->twins);
	nv_stat("distinct_states", nx_sh->distinct);
	nv_stat("hangs", nx_sh->hangs);
	nv_stat("crashes", nx_sh->crashes);
	nv_stat("evaluations", nx_sh->transitions + nx_sh->twins);
	nv_stat("traces_emitted", nx_sh->traces);
	if (nx_sh->cut)
		nv_deadline_hit = 1;
	nv_nviol += nx_sh->viols;
	for (i = 0; i < 16; i++)
		if (nx_sh->hist[i]) {
			char k[32];
			snprintf(k, sizeof(k), "%s", nx_hist_name ? nx_hist_name(i) : "class");
			nv_histo(k, nx_sh->hist[i]);
		}
	/* reset for the next nx_run (the visited table is keyed by hashes that include the configuration) */
	nx_sh->states = nx_sh->transitions = nx_sh->leaves = nx_sh->pruned = nx_sh->viols = nx_sh->exits = 0;
	nx_sh->twins = nx_sh->distinct = nx_sh->hangs = nx_sh->crashes = nx_sh->traces = nx_sh->cut = 0;
	memset(nx_sh->hist, 0, sizeof(nx_sh->hist));
}

/* ---- conformance traces ------------------------------------------------------------------------------------------
 * A trace is everything needed to repeat one explored history on the stock binary: argv, environment, the
 * initial files, every input byte, and what the harness observed (final files, ex-mode output).
 */
static struct { char path[96]; char *data; long len; } nx_init_files[VFS_MAXFILES];
static int nx_ninit;
static int nx_trace_ok = 1;		/* cleared when the history contains something the stock replay cannot reproduce */
static char nx_trace_argv[256];
static int nx_trace_stdout;		/* compare the ex-mode output too */

static void nx_trace_snapshot(int argc, char **argv)
{
	int i, o = 0;
	nx_ninit = 0;
	for (i = 0; i < vfs_n; i++)
		if (vfs[i].exists) {
			snprintf(nx_init_files[nx_ninit].path, sizeof(nx_init_files[0].path), "%s", vfs[i].path);
			nx_init_files[nx_ninit].data = malloc(vfs[i].len + 1);
			memcpy(nx_init_files[nx_ninit].data, vfs[i].data, vfs[i].len + 1);
			nx_init_files[nx_ninit].len = vfs[i].len;
			nx_ninit++;
		}
	nx_trace_argv[0] = '\0';
	for (i = 1; i < argc; i++)
		o += snprintf(nx_trace_argv + o, sizeof(nx_trace_argv) - o, "%s\"%s\"", i > 1 ? "," : "", argv[i]);
	nx_trace_ok = 1;
	nvx_fedlen = 0;
	nvx_exall_len = 0;
}

static void nx_hex(char *d, const void *s, long n);
static void nx_emit_trace(void)
{
	char *line, *hex;
	long cap = 1 << 16, o = 0;
	int i;
	if (!nx_trace_ok || !nx_trace_every)
		return;
	if (__sync_fetch_and_add(&nx_sh->traces, 1) % nx_trace_every)
		return;
	for (i = 0; i < vfs_n; i++)
		cap += vfs[i].len * 2 + 256;
	for (i = 0; i < nx_ninit; i++)
		cap += nx_init_files[i].len * 2 + 256;
	cap += nvx_fedlen * 2 + nvx_exall_len * 2;
	line = malloc(cap);
	hex = malloc(cap);
	o += snprintf(line + o, cap - o, "TRACE {\"argv\":[%s],\"env\":{\"LINES\":\"%s\",\"COLUMNS\":\"%s\",\"EXINIT\":\"%s\"},\"files\":{", nx_trace_argv,
		getenv("LINES") ? getenv("LINES") : "24", getenv("COLUMNS") ? getenv("COLUMNS") : "80", getenv("EXINIT") ? getenv("EXINIT") : "");
	for (i = 0; i < nx_ninit; i++) {
		nx_hex(hex, nx_init_files[i].data, nx_init_files[i].len);
		o += snprintf(line + o, cap - o, "%s\"%s\":\"%s\"", i ? "," : "", nx_init_files[i].path, hex);
	}
	nx_hex(hex, nvx_fedlog, nvx_fedlen);
	o += snprintf(line + o, cap - o, "},\"input\":\"%s\",\"expect_files\":{", hex);
	{
		int first = 1;
		for (i = 0; i < vfs_n; i++)
			if (vfs[i].exists) {
				nx_hex(hex, vfs[i].data, vfs[i].len);
				o += snprintf(line + o, cap - o, "%s\"%s\":\"%s\"", first ? "" : ",", vfs[i].path, hex);
				first = 0;
			}
	}
	o += snprintf(line + o, cap - o, "}");
	if (nx_trace_stdout) {
		nx_hex(hex, nvx_exall ? nvx_exall : "", nvx_exall_len);
		o += snprintf(line + o, cap - o, ",\"expect_stdout\":\"%s\"", hex);
	}
	o += snprintf(line + o, cap - o, "}\n");
	fflush(nv_out);
	if (__real_write(fileno(nv_out), line, o) < 0)
		_exit(3);
	free(line);
	free(hex);
}

/* conformance trace: the whole input of this history plus what the harness observed, as one JSON line */
static void nx_hex(char *d, const void *s, long n)
{
	const unsigned char *u = s;
	long i;
	for (i = 0; i < n; i++)
		sprintf(d + i * 2, "%02x", u[i]);
	d[n * 2] = '\0';
}
#endif
