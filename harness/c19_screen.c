/* C19: the terminal shows a true window of the buffer with the cursor on its character */
#include "nvx.h"
#include "vi.h"
#include "refvi.h"

extern int xrow, xoff, xtop, xleft;
#define ESC "\x1b"

/* ---- a small VT100 emulator fed by the wrapped write(1) ------------------------------------------------------ */
#define ER 32
#define EC 96
static struct {
	unsigned cell[ER][EC];	/* code point; 0 = blank; 1 = right half of a wide character */
	int rows, cols;
	int r, c;		/* cursor */
	int top, bot;		/* scroll region, inclusive */
	int wrap;		/* deferred wrap pending */
	int st;			/* parser state: 0 text, 1 after ESC, 2 in CSI */
	int par[4], npar;
	unsigned char u8[4];
	int u8n, u8need;
	long unknown;		/* sequences the emulator does not know */
} E;

static void emu_reset(int rows, int cols)
{
	memset(&E, 0, sizeof(E));
	E.rows = rows;
	E.cols = cols;
	E.bot = rows - 1;
}

static void emu_scroll_up(int top, int bot, int n)
{
	int r;
	for (; n > 0; n--) {
		for (r = top; r < bot; r++)
			memcpy(E.cell[r], E.cell[r + 1], sizeof(E.cell[0]));
		memset(E.cell[bot], 0, sizeof(E.cell[0]));
	}
}

static void emu_scroll_down(int top, int bot, int n)
{
	int r;
	for (; n > 0; n--) {
		for (r = bot; r > top; r--)
			memcpy(E.cell[r], E.cell[r - 1], sizeof(E.cell[0]));
		memset(E.cell[top], 0, sizeof(E.cell[0]));
	}
}

static int emu_combining(unsigned cp)
{
	return (cp >= 0x300 && cp <= 0x36f) || (cp >= 0x483 && cp <= 0x489) || (cp >= 0x591 && cp <= 0x5bd) ||
		(cp >= 0x610 && cp <= 0x61a) || (cp >= 0x64b && cp <= 0x65f) || cp == 0x670 || (cp >= 0x6d6 && cp <= 0x6dc) ||
		(cp >= 0x200b && cp <= 0x200f);
}

static void emu_put(unsigned cp)
{
	int w = rv_width(cp, 0);
	if (emu_combining(cp))
		return;		/* drawn over the previous cell: no cell of its own */
	if (cp == '\t')
		w = 1;
	if (E.wrap) {
		E.wrap = 0;
		E.c = 0;
		if (E.r == E.bot)
			emu_scroll_up(E.top, E.bot, 1);
		else if (E.r < E.rows - 1)
			E.r++;
	}
	if (E.c + w > E.cols)
		return;		/* does not fit: dropped (the editor never relies on it) */
	E.cell[E.r][E.c] = cp;
	if (w == 2)
		E.cell[E.r][E.c + 1] = 1;
	E.c += w;
	if (E.c >= E.cols) {
		E.c = E.cols - 1;
		E.wrap = 1;
	}
}

static void emu_csi(int final)
{
	int n = E.npar > 0 && E.par[0] ? E.par[0] : 1;
	int i;
	E.wrap = 0;
	switch (final) {
	case 'H':
		E.r = (E.npar > 0 && E.par[0] ? E.par[0] : 1) - 1;
		E.c = (E.npar > 1 && E.par[1] ? E.par[1] : 1) - 1;
		if (E.r >= E.rows) E.r = E.rows - 1;
		if (E.c >= E.cols) E.c = E.cols - 1;
		break;
	case 'C':
		E.c = E.c + n >= E.cols ? E.cols - 1 : E.c + n;
		break;
	case 'D':
		E.c = E.c - n < 0 ? 0 : E.c - n;
		break;
	case 'K':
		for (i = E.c; i < E.cols; i++)
			E.cell[E.r][i] = 0;
		break;
	case 'L':
		if (E.r >= E.top && E.r <= E.bot)
			emu_scroll_down(E.r, E.bot, n > E.bot - E.r + 1 ? E.bot - E.r + 1 : n);
		break;
	case 'M':
		if (E.r >= E.top && E.r <= E.bot)
			emu_scroll_up(E.r, E.bot, n > E.bot - E.r + 1 ? E.bot - E.r + 1 : n);
		break;
	case 'r':
		E.top = (E.npar > 0 && E.par[0] ? E.par[0] : 1) - 1;
		E.bot = (E.npar > 1 && E.par[1] ? E.par[1] : E.rows) - 1;
		if (E.bot >= E.rows) E.bot = E.rows - 1;
		if (E.top > E.bot) E.top = 0;
		E.r = E.c = 0;
		break;
	case 'm':
	case 'l':
	case 'h':
		break;
	default:
		E.unknown++;
	}
}

static void emu_feed(const char *buf, long n)
{
	long i;
	for (i = 0; i < n; i++) {
		unsigned char ch = buf[i];
		if (E.st == 1) {
			if (ch == '[') {
				E.st = 2;
				E.npar = 0;
				memset(E.par, 0, sizeof(E.par));
			} else {
				E.st = 0;
				E.unknown++;
			}
			continue;
		}
		if (E.st == 2) {
			if (ch >= '0' && ch <= '9') {
				if (!E.npar)
					E.npar = 1;
				if (E.npar <= 4)
					E.par[E.npar - 1] = E.par[E.npar - 1] * 10 + ch - '0';
			} else if (ch == ';') {
				if (!E.npar)
					E.npar = 1;
				if (E.npar < 4)
					E.npar++;
				else
					E.npar = 5;
			} else if (ch >= 0x40 && ch <= 0x7e) {
				emu_csi(ch);
				E.st = 0;
			}
			continue;
		}
		if (E.u8need) {
			E.u8[E.u8n++] = ch;
			if (E.u8n == E.u8need) {
				unsigned cp;
				if (E.u8need == 2) cp = ((E.u8[0] & 0x1f) << 6) | (E.u8[1] & 0x3f);
				else if (E.u8need == 3) cp = ((E.u8[0] & 0x0f) << 12) | ((E.u8[1] & 0x3f) << 6) | (E.u8[2] & 0x3f);
				else cp = ((E.u8[0] & 7) << 18) | ((E.u8[1] & 0x3f) << 12) | ((E.u8[2] & 0x3f) << 6) | (E.u8[3] & 0x3f);
				E.u8need = 0;
				emu_put(cp);
			}
			continue;
		}
		if (ch == 27) {
			E.st = 1;
		} else if (ch == '\r') {
			E.c = 0;
			E.wrap = 0;
		} else if (ch == '\n') {
			E.wrap = 0;
			if (E.r == E.bot)
				emu_scroll_up(E.top, E.bot, 1);
			else if (E.r < E.rows - 1)
				E.r++;
		} else if (ch == '\b') {
			if (E.c > 0)
				E.c--;
		} else if (ch >= 0xc0) {
			E.u8[0] = ch;
			E.u8n = 1;
			E.u8need = ch < 0xe0 ? 2 : ch < 0xf0 ? 3 : 4;
		} else if (ch >= 0x20 && ch != 0x7f) {
			emu_put(ch);
		}
	}
}

/* a text row as a string of code points, blanks as spaces, right-trimmed */
static void emu_row(int r, unsigned *out, int *n)
{
	int c, last = -1;
	for (c = 0; c < E.cols; c++) {
		out[c] = E.cell[r][c] ? E.cell[r][c] : ' ';
		if (out[c] != ' ')
			last = c;
	}
	*n = last + 1;
}

static void row_str(int r, char *b, int max)
{
	unsigned cps[EC];
	int n, i, o = 0;
	emu_row(r, cps, &n);
	for (i = 0; i < n && o < max - 5; i++) {
		unsigned c = cps[i];
		if (c == 1)
			continue;
		if (c < 0x80)
			b[o++] = c;
		else if (c < 0x800) { b[o++] = 0xc0 | (c >> 6); b[o++] = 0x80 | (c & 0x3f); }
		else { b[o++] = 0xe0 | (c >> 12); b[o++] = 0x80 | ((c >> 6) & 0x3f); b[o++] = 0x80 | (c & 0x3f); }
	}
	b[o] = '\0';
}

/* ---- alphabet and configurations ---------------------------------------------------------------------------------- */
static const struct { const char *name, *bytes; int twowin; } ops[] = {
	{"j", "j", 0}, {"k", "k", 0}, {"G", "G", 0}, {"1G", "1G", 0}, {"^F", "\x06", 0}, {"^B", "\x02", 0}, {"^D", "\x04", 0}, {"^U", "\x15", 0},
	{"^E", "\x05", 0}, {"^Y", "\x19", 0}, {"dd", "dd", 0}, {"3dd", "3dd", 0}, {"onew<ESC>", "onew" ESC, 0}, {"Onew<ESC>", "Onew" ESC, 0},
	{"p", "p", 0}, {"x", "x", 0}, {"u", "u", 0}, {"$", "$", 0}, {"0", "0", 0}, {"J", "J", 0}, {":2,4d", ":2,4d\n", 0}, {":$", ":$\n", 0},
	{"z<CR>", "z\n", 0}, {"z.", "z.", 0}, {"z-", "z-", 0}, {"H", "H", 0}, {"L", "L", 0}, {"P", "P", 0}, {"^R", "\x12", 0}, {"20|", "20|", 0},
	{"ia<CR>b<ESC>", "ia\nb" ESC, 0}, {":1", ":1\n", 0}, {"yy", "yy", 0}, {"5j", "5j", 0}, {"w", "w", 0},
	{"^Ws", "\x17s", 1}, {"^Wj", "\x17j", 1}, {"^Wo", "\x17o", 1}, {"3yy", "3yy", 0}, {"5k", "5k", 0},
	{"l", "l", 0}, {"h", "h", 0}, {"3l", "3l", 0},
	{"gUj", "gUj", 0}, {"g~3j", "g~3j", 0}, {"gUw", "gUw", 0}, {">j", ">j", 0}, {"3J", "3J", 0},
	{"3p", "3p", 0}, {"2P", "2P", 0}, {":%s/i/I/", ":%s/i/I/\n", 0}, {":g/2/d", ":g/2/d\n", 0},
};
#define NOPS ((int) (sizeof(ops) / sizeof(ops[0])))
static int nops_used = 24;

static char cfg_name[96];
static int cfg_rows, cfg_cols, cfg_lines, cfg_hl, cfg_hll;
static int windows = 1;		/* the harness only tracks whether a second window may exist */
static int structural = 1;	/* 0: right-to-left content, only the repaint twin is used */
static const char *cfg_exinit_extra = "";

/* ---- oracle ---------------------------------------------------------------------------------------------------------- */
struct grid { char row[ER][EC * 3 + 4]; int r, c, nrows; };
static struct grid *slot;	/* shared with the repaint twin */

static void take_grid(struct grid *g)
{
	int r;
	g->nrows = E.rows - 1;		/* text rows; the last row is the message line */
	for (r = 0; r < g->nrows; r++)
		row_str(r, g->row[r], sizeof(g->row[r]));
	g->r = E.r;
	g->c = E.c;
}

static void probe_repaint(void)
{
	take_grid(slot);
	slot->nrows = nx_exited ? -1 : slot->nrows;
}

/* reference rendering of buffer line ln clipped to the columns [left, left + cols) */
static void render_line(const char *ln, int left, int cols, char *out, int max)
{
	unsigned cp[512], cells[1024];
	char tmp[512];
	int n, i, col = 0, ncell = 0, o = 0, last = -1;
	snprintf(tmp, sizeof(tmp), "%s", ln);
	if (strchr(tmp, '\n'))
		*strchr(tmp, '\n') = '\0';
	n = rv_decode(tmp, cp);
	for (i = 0; i < 1024; i++)
		cells[i] = ' ';
	for (i = 0; i < n; i++) {
		int w = rv_width(cp[i], col), j;
		if (cp[i] != '\t') {
			/* a character is drawn only if all its cells are inside the window */
			if (col >= left && col + w <= left + cols) {
				cells[col] = cp[i];
				for (j = 1; j < w; j++)
					cells[col + j] = 1;
			}
		}
		col += w;
		if (col > 1000)
			break;
	}
	ncell = col < 1024 ? col : 1023;
	for (i = left; i < left + cols && i < ncell; i++)
		if (cells[i] != ' ')
			last = i;
	for (i = left; i <= last && o < max - 5; i++) {
		unsigned c = cells[i];
		if (c == 1)
			continue;
		if (c < 0x80)
			out[o++] = c;
		else if (c < 0x800) { out[o++] = 0xc0 | (c >> 6); out[o++] = 0x80 | (c & 0x3f); }
		else { out[o++] = 0xe0 | (c >> 12); out[o++] = 0x80 | ((c >> 6) & 0x3f); out[o++] = 0x80 | (c & 0x3f); }
	}
	out[o] = '\0';
}

static int state_bad;
static int last_valid, last_c, last_xrow, last_xoff, last_xleft;
static void nx_at_state(void)
{
	struct grid mine;
	int r;
	state_bad = 0;
	if (!nvx_idle)
		return;
	if (E.unknown) {
		nx_viol("c19-emulator", "the terminal stream contains %ld escape sequences the emulator does not implement", E.unknown);
		state_bad = 1;
		return;
	}
	take_grid(&mine);
	/* (1) structural, single window: the rows show lines xtop.. clipped at xleft, fillers past the end; cursor on its character */
	if (windows == 1 && structural) {
		int rows = E.rows - 1;
		if (lbuf_len(xb) && (xrow < xtop || xrow >= xtop + rows)) {
			nx_viol("c19-window", "the cursor line %d is outside the displayed window %d..%d", xrow + 1, xtop + 1, xtop + rows);
			state_bad = 1;
		}
		for (r = 0; r < rows && !state_bad; r++) {
			char exp[EC * 3 + 4];
			char *ln = lbuf_get(xb, xtop + r);
			if (ln)
				render_line(ln, xleft, E.cols, exp, sizeof(exp));
			else
				snprintf(exp, sizeof(exp), "%s", xtop + r ? (xleft ? "" : "~") : "");
			if (strcmp(mine.row[r], exp)) {
				nx_viol("c19-row", "terminal row %d shows \"%s\"; line %d of the buffer clipped at column %d renders as \"%s\" (window top = line %d)",
					r + 1, nv_esc(mine.row[r], -1), xtop + r + 1, xleft, nv_esc(exp, -1), xtop + 1);
				state_bad = 1;
			}
		}
		if (!state_bad && lbuf_len(xb)) {
			struct rvbuf b;
			char tmp[512];
			int start, w;
			snprintf(tmp, sizeof(tmp), "%s", lbuf_get(xb, xrow));
			if (strchr(tmp, '\n'))
				*strchr(tmp, '\n') = '\0';
			b.n = 1;
			b.len[0] = rv_decode(tmp, b.cp[0]);
			start = rv_col(&b, 0, xoff);
			w = xoff < b.len[0] ? rv_width(b.cp[0][xoff], start) : 1;
			if (E.r != xrow - xtop || E.c < start - xleft || E.c >= start - xleft + w) {
				nx_viol("c19-cursor", "the terminal cursor is at row %d column %d; the character commands act on (line %d, character %d) occupies row %d columns %d..%d",
					E.r + 1, E.c + 1, xrow + 1, xoff + 1, xrow - xtop + 1, start - xleft + 1, start - xleft + w);
				state_bad = 1;
			}
		}
	}
	/* (1'') h and l are visual motions in every configuration: when they move the cursor within its line, the
	 * terminal cursor moves left / right (same horizontal offset) */
	if (!state_bad && windows == 1 && nx_depth > 0 && last_valid && xrow == last_xrow && xleft == last_xleft && xoff != last_xoff) {
		const char *nm = ops[nx_hist[nx_depth - 1]].name;
		int want = !strcmp(nm, "l") || !strcmp(nm, "3l") ? +1 : !strcmp(nm, "h") ? -1 : 0;
		if (want && (E.c - last_c) * want <= 0) {
			nx_viol("c19-cursor", "%s moved the terminal cursor from column %d to column %d (line %d, character %d to %d): not to the %s",
				nm, last_c + 1, E.c + 1, xrow + 1, last_xoff + 1, xoff + 1, want > 0 ? "right" : "left");
			state_bad = 1;
		}
	}
	last_valid = windows == 1 && !state_bad;
	last_c = E.c;
	last_xrow = xrow;
	last_xoff = xoff;
	last_xleft = xleft;
	/* (1') right-to-left content, single window: the rows are only compared with the repaint twin below, but
	 * the cursor has an independent oracle where it is cheap: it is on the cursor line's row, and when the
	 * character commands act on is a printable ASCII character, the cell under the cursor shows that character */
	if (!state_bad && windows == 1 && !structural && lbuf_len(xb)) {
		char *ln = lbuf_get(xb, xrow);
		unsigned c = ln ? (unsigned) uc_code(uc_chr(ln, xoff)) : 0;
		if (E.r != xrow - xtop) {
			nx_viol("c19-cursor", "the terminal cursor is on row %d, the cursor line %d is displayed on row %d", E.r + 1, xrow + 1, xrow - xtop + 1);
			state_bad = 1;
		} else if (c > 0x20 && c < 0x7f && E.c >= 0 && E.c < EC && E.cell[E.r][E.c] != c) {
			nx_viol("c19-cursor", "the cell under the terminal cursor (row %d column %d) shows U+%04X; the character commands act on (line %d, character %d) is '%c'",
				E.r + 1, E.c + 1, E.cell[E.r][E.c], xrow + 1, xoff + 1, (int) c);
			state_bad = 1;
		}
	}
	if (state_bad)
		return;
	/* (2) differential: a forced full repaint must give the same rows - nothing stale, nothing missing */
	slot->nrows = -2;
	{
		/* the twin repaints onto a grid filled with a sentinel */
		int st, rr, cc;
		pid_t pid;
		fflush(nv_out);
		__sync_fetch_and_add(&nx_sh->twins, 1);
		pid = fork();
		if (pid < 0) {
			nv_err("fork failed");
			_exit(2);
		}
		if (!pid) {
			nx_probe = 1;
			nx_probe_fn = probe_repaint;
			for (rr = 0; rr < E.rows; rr++)
				for (cc = 0; cc < E.cols; cc++)
					E.cell[rr][cc] = '#';
			nvx_feed("\x0c", 1);
			alarm(nx_horizon);
			return;
		}
		while (waitpid(pid, &st, 0) < 0)
			;
		if (WIFSIGNALED(st)) {
			nx_viol("crash", "the repaint twin died with signal %d", WTERMSIG(st));
			return;
		}
	}
	if (slot->nrows < 0)
		return;
	for (r = 0; r < mine.nrows; r++) {
		/* with two windows the claim is about the active one (its rows are the scroll region) */
		if (windows == 2 && (r < E.top || r > E.bot))
			continue;
		if (r >= E.rows - 1)
			continue;
		if (strcmp(mine.row[r], slot->row[r])) {
			nx_viol("c19-stale", "terminal row %d shows \"%s\" but a full repaint draws \"%s\" (incremental update left a stale or missing row)",
				r + 1, nv_esc(mine.row[r], -1), nv_esc(slot->row[r], -1));
			state_bad = 1;
			return;
		}
	}
	if (mine.r != slot->r || mine.c != slot->c) {
		nx_viol("c19-cursor", "the terminal cursor is at (%d,%d) but after a full repaint at (%d,%d)", mine.r + 1, mine.c + 1, slot->r + 1, slot->c + 1);
		state_bad = 1;
	}
	__sync_fetch_and_add(&nx_sh->hist[windows == 1 ? 0 : 1], 1);
}

static void op_effect(int k)
{
	if (ops[k].twowin)
		windows = 2;	/* from here on only the differential oracle is used */
}

static int nx_nops(void) { return nops_used; }
static const char *nx_op_name(int k) { return ops[k].name; }
static int nx_op_bytes(int k, char *buf, int max)
{
	(void) max;
	strcpy(buf, ops[k].bytes);
	return strlen(buf);
}
static int nx_enabled(int k)
{
	(void) k;
	return 1;
}
static unsigned long long nx_state_hash(void) { return 0; }
static int nx_leaf_bytes(char *buf, int max)
{
	(void) max;
	strcpy(buf, ESC ":q!\n");
	return strlen(buf);
}
static void nx_at_exit(void) { }
static const char *nx_config_name(void) { return cfg_name; }
static const char *hist_name(int i) { return i == 0 ? "states_one_window" : "states_two_windows"; }

static long cfgidx;
static void run_config(int lines, int rows, int cols, int hl, int hll, int depth, int nops)
{
	char *argv[] = {"vi", "-v", "f.c", NULL};
	char r[8], c[8], opts[128];
	struct sbuf *sb;
	int i;
	vfs_n = 0;
	cfg_rows = rows; cfg_cols = cols; cfg_lines = lines; cfg_hl = hl; cfg_hll = hll;
	sb = sbuf_make();
	for (i = 0; i < lines; i++) {
		if (!structural && i % 3 == 1)
			sbuf_printf(sb, "\xd8\xa8\xd8\xa7\xd9\x8e\xd8\xa8 abc %d \xd8\xb3\xd9\x84\xd8\xa7\xd9\x85 (x) \xe2\x80\x8c\xd8\xaf\n", i);
		else if (!structural && i % 3 == 2)
			sbuf_printf(sb, "latin %d \xd8\xb3\xd9\x84\xd8\xa7\xd9\x85 \\*[ab] $x$ tail\n", i);
		else if (i % 7 == 3)
			sbuf_printf(sb, "\tint x%d = %d;\t/* tab */ a long line that runs beyond the width of the narrow windows used here %d\n", i, i, i);
		else if (i % 7 == 5)
			sbuf_printf(sb, "w\xe4\xb8\x80" "de %d \xe4\xb8\x80\xe4\xb8\x80 (x)\n", i);
		else if (i % 7 == 6)
			sbuf_str(sb, "\n");
		else
			sbuf_printf(sb, "line %d: if (a) return;\n", i);
	}
	if (lines)
		vfs_put("f.c", sbuf_buf(sb), -1);
	sbuf_free(sb);
	snprintf(r, sizeof(r), "%d", rows);
	snprintf(c, sizeof(c), "%d", cols);
	setenv("LINES", r, 1);
	setenv("COLUMNS", c, 1);
	snprintf(opts, sizeof(opts), "se %shl|se %shll%s", hl ? "" : "no", hll ? "" : "no", cfg_exinit_extra);
	setenv("EXINIT", opts, 1);
	snprintf(cfg_name, sizeof(cfg_name), "%dlines/%dx%d/%shl/%shll%s%s", lines, rows, cols, hl ? "" : "no", hll ? "" : "no", structural ? "" : "/rtl", cfg_exinit_extra);
	emu_reset(rows, cols);
	windows = 1;
	nops_used = nops;
	nx_bound = depth;
	snprintf(nx_cfg_args, sizeof(nx_cfg_args), "cfg=%d,%d,%d,%d,%d,%d,%d", lines, rows, cols, hl, hll, !structural,
		!cfg_exinit_extra[0] ? 0 : strstr(cfg_exinit_extra, "order") ? 2 : 1);
	nx_run(3, argv);
	nv_stat("configurations", 1);
	nx_report();
	(void) cfgidx;
}

int main(int argc, char **argv)
{
	int d;
	nv_init(argc, argv);
	d = atoi(nv_arg(argc, argv, "depth", nv_thorough ? "4" : "3"));
	nx_init(argc, argv, d, 0);
	nx_hist_name = hist_name;
	nx_op_effect = op_effect;
	nvx_term_hook = emu_feed;
	slot = mmap(NULL, sizeof(*slot), PROT_READ | PROT_WRITE, MAP_SHARED | MAP_ANONYMOUS, -1, 0);
	if (nv_arg(argc, argv, "cfg", NULL)) {
		int l, r, c, h, hh, rtl = 0, td = 0;
		sscanf(nv_arg(argc, argv, "cfg", "40,8,40,1,0"), "%d,%d,%d,%d,%d,%d,%d", &l, &r, &c, &h, &hh, &rtl, &td);
		structural = !rtl;
		cfg_exinit_extra = td == 2 ? "|se td=-2|se order=0" : td ? "|se td=-2" : "";
		run_config(l, r, c, h, hh, nx_replay_n >= 0 ? 10 : d, NOPS);
		return nv_finish();
	}
	run_config(40, 8, 40, 1, 0, d, 24);
	run_config(40, 5, 20, 0, 1, d, 24);
	run_config(3, 8, 40, 1, 1, d, 24);
	run_config(0, 5, 20, 1, 0, d - 1, 24);
	run_config(40, 8, 40, 1, 0, d - 1, NOPS);
	/* right-to-left and mixed-direction lines, in both base directions: the repaint twin only */
	structural = 0;
	cfg_exinit_extra = "";
	run_config(12, 8, 40, 1, 0, 3, 24);
	cfg_exinit_extra = "|se td=-2";
	run_config(12, 8, 40, 0, 1, 3, 24);
	cfg_exinit_extra = "|se td=-2|se order=0";	/* no reordering, the lines still mirrored */
	run_config(12, 8, 40, 0, 0, 2, NOPS);
	structural = 1;
	cfg_exinit_extra = "";
	if (nv_thorough) {
		run_config(40, 24, 80, 1, 0, d - 1, NOPS);
		run_config(40, 5, 20, 1, 1, d - 1, NOPS);
		run_config(3, 5, 20, 0, 0, d - 1, NOPS);
		run_config(9, 8, 40, 0, 1, d - 1, NOPS);
	}
	nv_stat("max:depth", d);
	if (nv_shard == 0)
		nv_sample("config=40lines/8x40/hl/nohll history=[^F ; 3dd ; u]: emulator grid rows vs reference rendering of lines xtop.. clipped at xleft, cursor cell inside the span of (xrow,xoff); twin: grid filled with '#', ^L, rows must equal the incremental ones");
	return nv_finish();
}
