/* C04 (a): undo and redo restore exact earlier texts, one step per command - line-buffer interface */
#include "nvenv.h"
#include "vi.h"

int peek_lbuf_canon(struct lbuf *lb, char *buf, int max);

static void nx_choice(void)
{
	nv_err("unexpected read from standard input");
	_exit(2);
}

/* ---- reference model: whole-text snapshots --------------------------------------------------------- */
#define MAXLN 6
#define MAXENT 400
struct text { int n; char ln[MAXLN][8]; };
struct ent { int seq; struct text before, after; };
struct model {
	struct text t;
	struct ent e[MAXENT];
	int n, u;
	int cur;		/* current command number */
	int zero, last;		/* saved marker / command number below the history */
};

static void m_init(struct model *m)
{
	memset(m, 0, sizeof(*m));
	m->cur = 1;
}

static int m_top(struct model *m)
{
	return m->u ? m->e[m->u - 1].seq : m->last;
}

/* splice text s (lines, last possibly unterminated) over [beg,end) */
static int m_edit(struct model *m, const char *s, int beg, int end)
{
	struct text nt;
	int i, k = 0;
	char lines[8][8];
	int nl = 0;
	if (beg > m->t.n)
		beg = m->t.n;
	if (end > m->t.n)
		end = m->t.n;
	if (beg == end && !s)
		return 0;
	while (s && *s) {
		const char *e = strchr(s, '\n');
		int l = e ? e - s : (int) strlen(s);
		memcpy(lines[nl], s, l);
		lines[nl][l] = '\n';
		lines[nl][l + 1] = '\0';
		nl++;
		s = e ? e + 1 : s + l;
	}
	if (m->t.n - (end - beg) + nl > MAXLN || m->u >= MAXENT - 1)
		return -1;		/* not enabled */
	for (i = 0; i < beg; i++)
		strcpy(nt.ln[k++], m->t.ln[i]);
	for (i = 0; i < nl; i++)
		strcpy(nt.ln[k++], lines[i]);
	for (i = end; i < m->t.n; i++)
		strcpy(nt.ln[k++], m->t.ln[i]);
	nt.n = k;
	m->n = m->u;			/* a new edit discards the redo branch */
	m->e[m->n].seq = m->cur;
	m->e[m->n].before = m->t;
	m->e[m->n].after = nt;
	m->n++;
	m->u = m->n;
	m->t = nt;
	return 1;
}

static int m_undo(struct model *m)
{
	int seq;
	if (!m->u)
		return 1;
	seq = m->e[m->u - 1].seq;
	while (m->u && m->e[m->u - 1].seq == seq)
		m->t = m->e[--m->u].before;
	return 0;
}

static int m_redo(struct model *m)
{
	int seq;
	if (m->u == m->n)
		return 1;
	seq = m->e[m->u].seq;
	while (m->u < m->n && m->e[m->u].seq == seq)
		m->t = m->e[m->u++].after;
	return 0;
}

static void m_saved(struct model *m, int clear)
{
	if (clear) {
		m->n = m->u = 0;
		m->last = m->cur;
	}
	m->zero = m_top(m);
	m->cur++;		/* lbuf_saved() ends with lbuf_modified() of the current buffer */
}

static int m_modified(struct model *m)
{
	m->cur++;
	return m_top(m) != m->zero;
}

/* ---- operations -------------------------------------------------------------------------------------- */
static const char *texts[] = {NULL, "", "a\n", "b\nc\n", "d"};
#define NTEXT 5
struct op { int kind; int text, beg, end; };	/* kind: 0 edit, 1 bump, 2 undo, 3 redo, 4 saved(0), 5 saved(1) */
static struct op ops[400];
static int nops;

static void build_ops(void)
{
	int t, b, e, k;
	for (t = 0; t < NTEXT; t++)
		for (b = 0; b <= 5; b++)
			for (e = b; e <= 5; e++) {
				ops[nops].kind = 0;
				ops[nops].text = t;
				ops[nops].beg = b;
				ops[nops++].end = e;
			}
	for (k = 1; k <= 5; k++)
		ops[nops++].kind = k;
}

static void op_name(int k, char *b, int max)
{
	struct op *o = &ops[k];
	static const char *kn[] = {"edit", "bump", "undo", "redo", "saved(0)", "saved(1)"};
	if (o->kind == 0)
		snprintf(b, max, "edit(%s,%d,%d)", o->text == 0 ? "NULL" : nv_esc(texts[o->text], -1), o->beg, o->end);
	else
		snprintf(b, max, "%s", kn[o->kind]);
}

/* is the operation enabled (meaningful and within the size cap) in model state m? */
static int op_enabled(struct model *m, int k)
{
	struct op *o = &ops[k];
	struct model tmp;
	if (o->kind)
		return 1;
	if (o->beg > m->t.n + 1 || o->end > m->t.n + 1)
		return 0;
	if (o->text == 0 && o->beg == o->end)
		return o->beg == 0;	/* the documented no-op, once */
	tmp = *m;
	return m_edit(&tmp, texts[o->text], o->beg, o->end) >= 0;
}

static char seqdesc[1200];
static void desc_seq(const int *seq, int n)
{
	int i, o = 0;
	seqdesc[0] = '\0';
	for (i = 0; i < n && o < (int) sizeof(seqdesc) - 60; i++) {
		char b[64];
		op_name(seq[i], b, sizeof(b));
		o += snprintf(seqdesc + o, sizeof(seqdesc) - o, "%s%s", i ? " ; " : "", b);
	}
}

static struct lbuf *fresh(void)
{
	ex_command("b !");
	return xb;
}

/* compare the real buffer with the model; returns 1 on mismatch */
static int cmp_text(struct lbuf *lb, struct model *m, const int *seq, int n, const char *after)
{
	int i;
	char *cp;
	if (lbuf_len(lb) != m->t.n)
		goto bad;
	for (i = 0; i < m->t.n; i++)
		if (!lbuf_get(lb, i) || strcmp(lbuf_get(lb, i), m->t.ln[i]))
			goto bad;
	if (lbuf_get(lb, m->t.n) || lbuf_get(lb, -1))
		goto bad;
	cp = lbuf_cp(lb, 0, lbuf_len(lb));
	{
		char exp[128] = "";
		for (i = 0; i < m->t.n; i++)
			strcat(exp, m->t.ln[i]);
		i = strcmp(exp, cp);
		free(cp);
		if (i)
			goto bad;
	}
	return 0;
bad:
	{
		char got[256] = "", exp[128] = "";
		desc_seq(seq, n);
		for (i = 0; i < lbuf_len(lb) && i < 12; i++)
			strncat(got, lbuf_get(lb, i), 12);
		for (i = 0; i < m->t.n; i++)
			strcat(exp, m->t.ln[i]);
		nv_viol("c04-text", "kind=lbuf ops=[%s] after %s: text \"%s\" (%d lines), reference \"%s\" (%d lines)",
			seqdesc, after, nv_esc(got, -1), lbuf_len(lb), nv_esc(exp, -1), m->t.n);
	}
	return 1;
}

/* apply operation k to both; returns 1 on violation */
static int apply(struct lbuf *lb, struct model *m, int k, const int *seq, int n)
{
	struct op *o = &ops[k];
	char nm[64];
	int r1, r2;
	op_name(k, nm, sizeof(nm));
	switch (o->kind) {
	case 0:
		lbuf_edit(lb, (char *) texts[o->text], o->beg, o->end);
		m_edit(m, texts[o->text], o->beg, o->end);
		break;
	case 1:
		r1 = lbuf_modified(lb);
		r2 = m_modified(m);
		if (r1 != r2) {
			desc_seq(seq, n);
			nv_viol("c04-dirty", "kind=lbuf ops=[%s]: lbuf_modified()=%d, reference %d (text %s the saved text's history position)", seqdesc, r1, r2,
				r2 ? "is not at" : "is at");
			return 1;
		}
		break;
	case 2:
		r1 = lbuf_undo(lb);
		r2 = m_undo(m);
		if (r1 != r2) {
			desc_seq(seq, n);
			nv_viol("c04-undo-status", "kind=lbuf ops=[%s]: lbuf_undo()=%d, reference %d", seqdesc, r1, r2);
			return 1;
		}
		break;
	case 3:
		r1 = lbuf_redo(lb);
		r2 = m_redo(m);
		if (r1 != r2) {
			desc_seq(seq, n);
			nv_viol("c04-redo-status", "kind=lbuf ops=[%s]: lbuf_redo()=%d, reference %d", seqdesc, r1, r2);
			return 1;
		}
		break;
	case 4:
	case 5:
		lbuf_saved(lb, o->kind == 5);
		m_saved(m, o->kind == 5);
		break;
	}
	return cmp_text(lb, m, seq, n, nm);
}

static long n_seq, n_steps;
static struct nv_set canon_set;

/* plain enumeration of all sequences up to depth d, rebuilding by replay */
static int run_seq(const int *seq, int n, struct model *mout, int check)
{
	struct lbuf *lb = fresh();
	static struct model m;
	int i;
	m_init(&m);
	/* the fresh buffer has seen one lbuf_modified() from ex_command() */
	m.cur++;
	for (i = 0; i < n; i++) {
		n_steps++;
		if (apply(lb, &m, seq[i], seq, i + 1))
			return 1;
	}
	(void) check;
	if (mout)
		*mout = m;
	return 0;
}

static int maxdepth;
static int seq[32];
static long rootidx;

static int first_op = -1;	/* restrict the first operation (one forked child per first operation) */

static void dfs(int d, struct model *m)
{
	int k;
	if (d == maxdepth || nv_expired())
		return;
	for (k = 0; k < nops; k++) {
		struct model m2;
		if (!op_enabled(m, k))
			continue;
		if (d == 0 && k != first_op)
			continue;
		if (d == 1 && (rootidx++ % nv_nshards) != nv_shard)
			continue;
		seq[d] = k;
		n_seq++;
		if (run_seq(seq, d + 1, &m2, 1))
			continue;
		if (d + 1 == maxdepth || d == 0) {
			char cb[4096];
			int l = peek_lbuf_canon(xb, cb, sizeof(cb));
			nv_set_add(&canon_set, nv_hash(cb, l, nv_hash(&m2.t, sizeof(m2.t), 0)));
		}
		dfs(d + 1, &m2);
	}
}

/* history growth across the 128-entry allocation step */
static void long_runs(void)
{
	int s[800], n = 0, i, grouped;
	struct model m;
	for (grouped = 0; grouped < 2; grouped++) {
		n = 0;
		for (i = 0; i < 130; i++) {
			/* alternate appending and deleting a line so that the buffer stays small */
			int k;
			for (k = 0; k < nops; k++)
				if (ops[k].kind == 0 && ((i & 1) ? (ops[k].text == 0 && ops[k].beg == 0 && ops[k].end == 1)
						: (ops[k].text == 2 && ops[k].beg == 0 && ops[k].end == 0)))
					break;
			s[n++] = k;
			if (!grouped)
				s[n++] = nops - 5;	/* bump */
		}
		for (i = 0; i < (grouped ? 2 : 131); i++)
			s[n++] = nops - 4;	/* undo */
		for (i = 0; i < (grouped ? 2 : 131); i++)
			s[n++] = nops - 3;	/* redo */
		n_seq++;
		run_seq(s, n, &m, 1);
	}
}

static void run_first(long k)
{
	struct model m0;
	m_init(&m0);
	m0.cur++;
	first_op = k;
	rootidx = 0;
	n_seq = n_steps = 0;
	if (k == 0 && nv_shard == 0) {
		long_runs();
	}
	if (op_enabled(&m0, k))
		dfs(0, &m0);
	{
		static long reported;
		nv_stat("distinct_nontrivial", canon_set.n - reported);
		reported = canon_set.n;
	}
	nv_stat("sequences", n_seq);
	nv_stat("states", n_seq);
	nv_stat("transitions", n_steps);
	nv_stat("evaluations", n_seq);
}

static void desc_first(long k, char *buf, int len)
{
	char nm[64];
	op_name(k, nm, sizeof(nm));
	snprintf(buf, len, "some sequence of <= %d operations beginning with %s (see the sanitizer report)", maxdepth, nm);
}

int main(int argc, char **argv)
{
	static char *files[] = {"f", NULL};
	struct model m0;
	nv_init(argc, argv);
	maxdepth = atoi(nv_arg(argc, argv, "depth", nv_thorough ? "5" : "4"));
	nv_set_init(&canon_set, 1 << 16);
	build_ops();
	dir_init();
	syn_init();
	if (ex_init(files)) {
		nv_err("ex_init failed");
		return 2;
	}
	nvx_exout_reset();
	{
		char errpath[512];
		snprintf(errpath, sizeof(errpath), "%s.err", nv_arg(argc, argv, "out", "c04"));
		nv_forkloop(nops, run_first, desc_first, "c04-memory", errpath);
		nv_stat("max:depth", maxdepth);
	}
	(void) m0;
	if (nv_shard == 0)
		nv_sample("ops=[edit(b\\nc\\n,0,0) ; bump ; edit(NULL,0,1) ; undo ; redo ; saved(0) ; undo ; bump]: text via lbuf_get/lbuf_len/lbuf_cp, undo/redo status and lbuf_modified() vs snapshot-stack reference after every step");
	return nv_finish();
}
