/* the repository's uc.c compiled unmodified, plus read-only accessors to its tables */
#include "uc.c"

int peek_uc_tab(int which, int idx, int *lo, int *hi)
{
	int (*t)[2] = which == 0 ? dwchars : which == 1 ? zwchars : bchars;
	int n = which == 0 ? LEN(dwchars) : which == 1 ? LEN(zwchars) : LEN(bchars);
	if (idx < 0 || idx >= n)
		return 1;
	*lo = t[idx][0];
	*hi = t[idx][1];
	return 0;
}
int peek_uc_acomb(int c) { return uc_acomb(c); }
int peek_uc_nachars(void) { return LEN(achars); }
void peek_uc_achar(int i, unsigned *c, unsigned *s, unsigned *ini, unsigned *m, unsigned *f)
{
	*c = achars[i].c; *s = achars[i].s; *ini = achars[i].i; *m = achars[i].m; *f = achars[i].f;
}
