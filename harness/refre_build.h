/* pattern ASTs in prefix notation: enumeration by size, arena construction, concrete syntax (shared by C10, C13, C14, C15) */
#ifndef REFRE_BUILD_H
#define REFRE_BUILD_H
#include "refre.h"

/* ---- AST enumeration in prefix notation ------------------------------------------------------ */
/* atoms 'a'..'k'; 'E' = "()"; 'G' c; 'C' l r; 'A' l r; quantifiers * + ? 0 1 2 3 followed by child */
static const char *atom_txt[] = {"a", "b", ".", "[ab]", "[^a]", "[[:alpha:]]", "\xc3\xa9", "^", "$", "\\<", "\\>", "x", " ", "[^\xc3\xa9]", "[b\xc3\xa9]", "[[:upper:]]", "[^[:upper:]]"};
#define NATOM 11	/* atoms used by the enumeration; 'l' (x) and 'm' (space) only in hand-written codes */
#define NATOM_ALL 17
static const char quants[] = "*+?0123";
static const char *quant_txt[] = {"*", "+", "?", "{0,1}", "{1,2}", "{2}", "{2,}"};
static const int quant_min[] = {0, 1, 0, 0, 1, 2, 2};
static const int quant_max[] = {-1, -1, 1, 1, 2, 2, -1};

struct plist { char (*v)[12]; long n, cap; };
static void pl_add(struct plist *l, const char *a, const char *b, const char *c)
{
	if (l->n == l->cap) {
		l->cap = l->cap ? l->cap * 2 : 1024;
		l->v = realloc(l->v, l->cap * sizeof(l->v[0]));
	}
	snprintf(l->v[l->n++], 12, "%s%s%s", a, b, c);
}
#define MAXSZ 6
static struct plist base[MAXSZ + 1], rep[MAXSZ + 1], seq[MAXSZ + 1], alt[MAXSZ + 1];

static void gen(int maxsz)
{
	int s, i;
	long x, y;
	char t[2] = {0, 0};
	for (s = 1; s <= maxsz; s++) {
		if (s == 1) {
			for (i = 0; i < NATOM; i++) {
				t[0] = 'a' + i;
				pl_add(&base[1], t, "", "");
			}
			pl_add(&base[1], "E", "", "");
		} else {
			for (x = 0; x < alt[s - 1].n; x++)
				pl_add(&base[s], "G", alt[s - 1].v[x], "");
		}
		for (x = 0; x < base[s].n; x++)
			pl_add(&rep[s], base[s].v[x], "", "");
		if (s > 1)
			for (i = 0; quants[i]; i++) {
				t[0] = quants[i];
				for (x = 0; x < base[s - 1].n; x++)
					pl_add(&rep[s], t, base[s - 1].v[x], "");
			}
		for (x = 0; x < rep[s].n; x++)
			pl_add(&seq[s], rep[s].v[x], "", "");
		for (i = 1; i < s - 1; i++)
			for (x = 0; x < rep[i].n; x++)
				for (y = 0; y < seq[s - 1 - i].n; y++)
					pl_add(&seq[s], "C", rep[i].v[x], seq[s - 1 - i].v[y]);
		for (x = 0; x < seq[s].n; x++)
			pl_add(&alt[s], seq[s].v[x], "", "");
		for (i = 1; i < s - 1; i++)
			for (x = 0; x < seq[i].n; x++)
				for (y = 0; y < alt[s - 1 - i].n; y++)
					pl_add(&alt[s], "A", seq[i].v[x], alt[s - 1 - i].v[y]);
	}
}

/* build the arena AST from prefix code; group numbers in order of '(' */
static const char *build(struct rr_ast *a, const char *p, int *out)
{
	int id = a->cnt++;
	struct rr_node *n = &a->n[id];
	const char *q;
	memset(n, 0, sizeof(*n));
	*out = id;
	if (*p >= 'a' && *p < 'a' + NATOM_ALL) {
		int k = *p - 'a';
		n->kind = RK_ATOM;
		switch (k) {
		case 0: n->at = AT_LIT; n->lit = "a"; break;
		case 1: n->at = AT_LIT; n->lit = "b"; break;
		case 2: n->at = AT_ANY; break;
		case 3: n->at = AT_BRK; n->brk_set = "ab"; break;
		case 4: n->at = AT_BRK; n->brk_set = "a"; n->brk_neg = 1; break;
		case 5: n->at = AT_BRK; n->brk_alpha = 1; break;
		case 6: n->at = AT_LIT; n->lit = "\xc3\xa9"; break;
		case 7: n->at = AT_BOL; break;
		case 8: n->at = AT_EOL; break;
		case 9: n->at = AT_WBEG; break;
		case 10: n->at = AT_WEND; break;
		case 11: n->at = AT_LIT; n->lit = "x"; break;
		case 12: n->at = AT_LIT; n->lit = " "; break;
		case 13: n->at = AT_BRK; n->brk_set = ""; n->brk_cp = 0xe9; n->brk_neg = 1; break;
		case 14: n->at = AT_BRK; n->brk_set = "b"; n->brk_cp = 0xe9; break;
		case 15: n->at = AT_BRK; n->brk_set = ""; n->brk_upper = 1; break;
		case 16: n->at = AT_BRK; n->brk_set = ""; n->brk_upper = 1; n->brk_neg = 1; break;
		}
		return p + 1;
	}
	if (*p == 'E') {
		n->kind = RK_GRP;
		n->l = -1;
		n->grp = ++a->ngrp;
		return p + 1;
	}
	if (*p == 'G') {
		int c;
		n->kind = RK_GRP;
		n->grp = ++a->ngrp;
		p = build(a, p + 1, &c);
		a->n[id].l = c;
		return p;
	}
	if (*p == 'C' || *p == 'A') {
		int l, r;
		n->kind = *p == 'C' ? RK_CAT : RK_ALT;
		p = build(a, p + 1, &l);
		p = build(a, p, &r);
		a->n[id].l = l;
		a->n[id].r = r;
		return p;
	}
	if ((q = strchr(quants, *p))) {
		int c;
		n->kind = RK_REP;
		n->min = quant_min[q - quants];
		n->max = quant_max[q - quants];
		p = build(a, p + 1, &c);
		a->n[id].l = c;
		return p;
	}
	fprintf(stderr, "bad prefix code\n");
	exit(2);
}

/* concrete syntax */
static const char *print(const char *p, char *out)
{
	const char *q;
	if (*p >= 'a' && *p < 'a' + NATOM_ALL) {
		strcat(out, atom_txt[*p - 'a']);
		return p + 1;
	}
	if (*p == 'E') {
		strcat(out, "()");
		return p + 1;
	}
	if (*p == 'G') {
		strcat(out, "(");
		p = print(p + 1, out);
		strcat(out, ")");
		return p;
	}
	if (*p == 'C') {
		p = print(p + 1, out);
		return print(p, out);
	}
	if (*p == 'A') {
		p = print(p + 1, out);
		strcat(out, "|");
		return print(p, out);
	}
	if ((q = strchr(quants, *p))) {
		p = print(p + 1, out);
		strcat(out, quant_txt[q - quants]);
		return p;
	}
	return p;
}

#endif
