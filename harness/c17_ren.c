/* C17: screen-column layout is a gap-free tiling; cursor/column mapping round-trips (library level) */
#include "nvh.h"
#include "vi.h"

int peek_uc_tab(int which, int idx, int *lo, int *hi);

static int ref_enc(unsigned c, char *d)
{
	unsigned char *u = (unsigned char *) d;
	if (c < 0x80) { u[0] = c; return 1; }
	if (c < 0x800) { u[0] = 0xc0 | (c >> 6); u[1] = 0x80 | (c & 0x3f); return 2; }
	if (c < 0x10000) { u[0] = 0xe0 | (c >> 12); u[1] = 0x80 | ((c >> 6) & 0x3f); u[2] = 0x80 | (c & 0x3f); return 3; }
	u[0] = 0xf0 | (c >> 18); u[1] = 0x80 | ((c >> 12) & 0x3f); u[2] = 0x80 | ((c >> 6) & 0x3f); u[3] = 0x80 | (c & 0x3f);
	return 4;
}

/* linear scan of a table */
static int in_tab(int which, int c)
{
	int i, lo, hi;
	for (i = 0; !peek_uc_tab(which, i, &lo, &hi); i++)
		if (c >= lo && c <= hi)
			return 1;
	return 0;
}

/* membership of every code point by linear scan, computed once into bitmaps */
static unsigned char *bm[3];
static void build_bitmaps(void)
{
	int w, i, lo, hi, c;
	for (w = 0; w < 3; w++) {
		bm[w] = calloc(0x110000 / 8 + 1, 1);
		for (i = 0; !peek_uc_tab(w, i, &lo, &hi); i++)
			for (c = lo; c <= hi && c < 0x110000; c++)
				if (c >= 0)
					bm[w][c >> 3] |= 1 << (c & 7);
	}
}
#define INBM(w, c) ((bm[w][(c) >> 3] >> ((c) & 7)) & 1)

static int ref_wid(int c)
{
	if (INBM(1, c))
		return 0;
	return INBM(0, c) ? 2 : 1;
}

static int ref_isbell(int c)
{
	if (c == ' ' || c == '\t' || c == '\n' || (c >= 0x20 && c < 0x7f))
		return 0;
	return INBM(1, c) || INBM(2, c);
}

static int ref_cwid(unsigned c, int pos);
static void part_a(void)
{
	int c, w, i, lo, hi, plo, phi;
	long n = 0, nz = 0;
	/* the bisection needs sorted, disjoint ranges */
	if (nv_shard == 0)
		for (w = 0; w < 3; w++) {
			plo = phi = -1;
			for (i = 0; !peek_uc_tab(w, i, &lo, &hi); i++) {
				if (lo > hi || lo <= phi)
					nv_viol("c17-table-order", "kind=table which=%d entry=%d {0x%x,0x%x} after {0x%x,0x%x}", w, i, lo, hi, plo, phi);
				plo = lo; phi = hi;
			}
		}
	for (c = 1; c <= 0x10ffff; c++) {
		if ((c & 0x3fff) == 1)
			nv_guard(120, "c17-hang", "the code points from U+%04X", c);
		char buf[8];
		int rw, rb;
		if (c >= 0xd800 && c <= 0xdfff)
			continue;
		if (c % nv_nshards != nv_shard)
			continue;
		buf[ref_enc(c, buf)] = '\0';
		rw = ref_wid(c);
		rb = ref_isbell(c);
		n++;
		nz += rw != 1 || rb;
		if (uc_wid(buf) != rw || !!uc_isbell(buf) != rb) {
			nv_viol("c17-width-class", "kind=codepoint cp=U+%04X uc_wid=%d ref=%d uc_isbell=%d ref=%d", c, uc_wid(buf), rw, !!uc_isbell(buf), rb);
			if (nv_nviol > 20)
				break;
		}
		/* the cells a character takes when drawn: a placeholder's declared width, one cell for the
		 * replacement of a non-printable character (whatever its width class), else its class */
		if (ren_cwid(buf, 0) != ref_cwid(c, 0)) {
			nv_viol("c17-cells", "kind=codepoint cp=U+%04X is laid out with %d cells, reference %d (width class %d, non-printable %d)", c, ren_cwid(buf, 0), ref_cwid(c, 0), rw, rb);
			if (nv_nviol > 20)
				break;
		}
	}
	nv_stat("codepoints", n);
	nv_stat("evaluations", n);
	nv_stat("states", n);
	nv_stat("transitions", n * 2);
	nv_stat("distinct_nontrivial", nz);
	(void) in_tab;
}

/* (b) lines over a width-class alphabet */
static const unsigned alpha[] = {'a', '\t', 0x4e00, 0x0300, 0x064e, 0x0628, 0x200c, 'b', ' '};
static int NA = 7;
#define MAXL 8

/* reference width of character c at column pos */
static int ref_cwid(unsigned c, int pos)
{
	int i, wid;
	char *src, *dst;
	if (c == '\t')
		return 8 - (pos % 8);
	for (i = 0; !conf_placeholder(i, &src, &dst, &wid); i++)
		if (uc_code(src) == (int) c)
			return wid;
	if (ref_isbell(c))
		return 1;	/* drawn as the replacement placeholder, one cell */
	return ref_wid(c);
}

static char cfg[64];

static unsigned long n_cases;
static void check_line(const int *idx, int n0)
{
	char s[MAXL * 4 + 8];
	unsigned cp[MAXL + 2];
	int len = 0, i, j, n = n0 + 1;
	int *pos;
	int ord[MAXL + 2], wid[MAXL + 2];
	int total;
	for (i = 0; i < n0; i++) {
		cp[i] = alpha[idx[i]];
		len += ref_enc(cp[i], s + len);
	}
	cp[n0] = '\n';
	s[len++] = '\n';
	s[len] = '\0';
	nv_case_str = s;
	if ((++n_cases & 0xfff) == 0)
		nv_guard(120, "c17-hang", "a block of 4096 lines, cfg=%s", cfg);
	pos = ren_position(s);
#define BAD(slug, what, ...) do { nv_viol(slug, "kind=line s=\"%s\" cfg=%s " what, nv_esc(s, len), cfg, __VA_ARGS__); free(pos); return; } while (0)
	/* visual order: sort by column; ties can only involve zero-width characters, which come first */
	for (i = 0; i < n; i++)
		ord[i] = i;
	for (i = 1; i < n; i++) {
		int v = ord[i];
		for (j = i; j > 0 && pos[ord[j - 1]] > pos[v]; j--)
			ord[j] = ord[j - 1];
		ord[j] = v;
	}
	/* tiling: each character starts where the previous one ended */
	{
		int col = 0;
		/* place zero-width characters of a tie first */
		for (i = 0; i < n; i++) {
			int k = ord[i];
			int w;
			/* among ties choose a zero-width one first */
			for (j = i; j < n && pos[ord[j]] == pos[k]; j++)
				if (ref_cwid(cp[ord[j]], col) == 0) {
					int t = ord[i]; ord[i] = ord[j]; ord[j] = t;
					break;
				}
			k = ord[i];
			w = ref_cwid(cp[k], col);
			wid[k] = w;
			if (pos[k] != col)
				BAD("c17-tiling", "char %d (U+%04X) at column %d, previous ended at %d", k, cp[k], pos[k], col);
			if (ren_cwid(uc_chr(s, k), col) != w)
				BAD("c17-cwid", "char %d (U+%04X) at column %d: ren_cwid=%d ref=%d", k, cp[k], col, ren_cwid(uc_chr(s, k), col), w);
			col += w;
		}
		total = col;
		if (pos[n] != total)
			BAD("c17-tiling", "pos[n]=%d total=%d", pos[n], total);
		if (ren_wid(s) != total)
			BAD("c17-tiling", "ren_wid=%d total=%d", ren_wid(s), total);
	}
	if (ord[n - 1] != n - 1)
		BAD("c17-eol-last", "line terminator is not displayed last (visual index of char %d)", ord[n - 1]);
	/* round trip and neighbours */
	for (i = 0; i < n; i++) {
		int k = ord[i];
		int p = ren_pos(s, k);
		int exp_r = -1, exp_l = -1, c;
		if (p != pos[k])
			BAD("c17-pos", "ren_pos(%d)=%d pos[]=%d", k, p, pos[k]);
		if (wid[k] == 0)
			continue;
		if (ren_off(s, p) != k)
			BAD("c17-roundtrip", "ren_off(ren_pos(%d)=%d)=%d", k, p, ren_off(s, p));
		/* every cell of the character maps back to it */
		for (c = p; c < p + wid[k]; c++)
			if (ren_off(s, c) != k)
				BAD("c17-roundtrip", "ren_off(cell %d of char %d)=%d", c, k, ren_off(s, c));
		/* neighbours: the nearest character with a different column, visually right / left */
		for (j = i + 1; j < n; j++)
			if (pos[ord[j]] > p) {
				exp_r = cp[ord[j]] == '\n' ? -1 : pos[ord[j]];
				break;
			}
		for (j = i - 1; j >= 0; j--)
			if (pos[ord[j]] < p) {
				exp_l = pos[ord[j]];
				break;
			}
		if (cp[k] != '\n') {
			if (ren_next(s, p, +1) != exp_r)
				BAD("c17-next", "ren_next(col %d,+1)=%d ref=%d", p, ren_next(s, p, +1), exp_r);
			if (ren_next(s, p, -1) != exp_l)
				BAD("c17-next", "ren_next(col %d,-1)=%d ref=%d", p, ren_next(s, p, -1), exp_l);
			c = ren_cursor(s, p);
			if (c < p || c >= p + wid[k])
				BAD("c17-cursor", "ren_cursor(col %d)=%d outside [%d,%d)", p, c, p, p + wid[k]);
		}
		nv_stat("transitions", 6);
	}
	/* ren_noeol keeps an offset on a character before the terminator */
	for (i = -1; i <= n + 1; i++) {
		int o = ren_noeol(s, i < 0 ? 0 : i);
		int e = i < 0 ? 0 : i;
		if (e >= n)
			e = n - 1;
		if (e == n - 1 && e > 0)
			e--;
		if (o != e)
			BAD("c17-noeol", "ren_noeol(%d)=%d ref=%d", i, o, e);
	}
#undef BAD
	free(pos);
}

static void part_b(int maxl)
{
	static const int orders[] = {0, 1, 2};
	static const int tds[] = {-2, -1, 0, 1, 2};
	static const int lims[] = {3, 256};
	int idx[MAXL], n, io, it, il, i;
	long total = 0, nontriv = 0;
	for (n = 0; n <= maxl; n++) {
		long cnt = 1, k;
		for (i = 0; i < n; i++)
			cnt *= NA;
		for (k = nv_shard; k < cnt; k += nv_nshards) {
			long v = k;
			int special = 0;
			if (nv_expired())
				goto out;
			for (i = 0; i < n; i++) {
				idx[i] = v % NA;
				v /= NA;
				special |= idx[i] != 0;
			}
			for (io = 0; io < 3; io++)
				for (it = 0; it < 5; it++)
					for (il = 0; il < 2; il++) {
						xorder = orders[io];
						xtd = tds[it];
						xlim = lims[il];
						snprintf(cfg, sizeof(cfg), "order=%d,td=%d,lim=%d", xorder, xtd, xlim);
						check_line(idx, n);
						total++;
						nontriv += special;
					}
		}
	}
out:
	nv_stat("line_configs", total);
	nv_stat("evaluations", total);
	nv_stat("states", total);
	nv_stat("distinct_nontrivial", nontriv);
	nv_stat("max:maxlen", maxl);
	if (nv_shard == 0)
		nv_sample("line \"a\\t\\xe4\\xb8\\x80\\xd9\\x8e\\xd8\\xa8\\n\" x order in {0,1,2} x td in {-2..2} x lim in {3,256}: tiling, ren_off(ren_pos(i))=i, ren_next +-1, ren_cursor, ren_noeol");
}

int main(int argc, char **argv)
{
	nv_init(argc, argv);
	nv_crash_guard("c17-crash");
	dir_init();
	build_bitmaps();
	part_a();
	part_b(atoi(nv_arg(argc, argv, "maxlen", nv_thorough ? "7" : "5")));
	return nv_finish();
}
