/* C07: vi cursor motions land where the reference motion semantics say */
#include "nvx.h"
#include "vi.h"
#include "refvi.h"

extern int xrow, xoff, xtop;

static const char *buftexts[] = {
	"abc def\n  x_1 (y)\n\nlast.\n",
	"a\tb\n\t\xc3\xa9\xe4\xb8\x80z\na\xc3\xa8" "b\xc3\xa9" "c\xc3\xa8\n",
	"e\xcc\x81x yz\n\n\n{a[b]}\n",
	"",
	"x\n",
	"foo(bar, baz);\nif (a) { b[1] = c; }\n}\n",
	"a.b..c  d\n;;\nab12_x\n",
	"l0\n  l1\nl2\n\nl4\n\tl5\nl6\nl7\n  l8\nl9\nl10\nl11 end\n",
	"ab \n \nc.\n\t \n\nd\n  \n",		/* lines holding only blanks are not empty lines */
	"if (c == '[') x\na { b ) c }\na ( b ] c\n(a [b) c]\n",	/* brackets of another kind between a pair do not count */
};
#define NBUF 10
static const int buf_rows[] = {24, 24, 24, 24, 24, 24, 24, 6, 24, 24};

struct mop { char bytes[12]; int key; unsigned arg; int cnt; };
static struct mop ops[400];
static int nops, ncore;
static int core_only;

static struct rvbuf B;
static struct rvcur C;
static char cfg_name[64];
static int cfg;
static int pre_xtop;
static char *orig_text;

static void add(const char *bytes, int key, unsigned arg, int cnt)
{
	snprintf(ops[nops].bytes, sizeof(ops[nops].bytes), "%s", bytes);
	ops[nops].key = key;
	ops[nops].arg = arg;
	ops[nops].cnt = cnt;
	nops++;
}

static void build_ops(void)
{
	static const char *simple = "hljk0^$wbeWBE;,G+-_%{}HML ";
	static const int counts[] = {2, 3, 9};
	static const char *fch[] = {"a", "b", "q", "(", "\xc3\xa9"};
	static const unsigned fcp[] = {'a', 'b', 'q', '(', 0xe9};
	const char *s;
	int i, j;
	char b[16];
	/* the core alphabet first (used for the deeper sequences) */
	static const char *core[] = {"j", "k", "l", "h", "w", "b", "e", "$", "0", "fa", ";", "3|", "G", "}", "2j", "tb", ",", "Fb"};
	for (i = 0; i < 18; i++) {
		const char *k = core[i];
		int cnt = 0;
		if (*k >= '1' && *k <= '9')
			cnt = *k++ - '0';
		add(core[i], *k, k[1] ? (unsigned char) k[1] : 0, cnt);
	}
	ncore = nops;
	for (s = simple; *s; s++) {
		snprintf(b, sizeof(b), "%c", *s);
		if (!strchr("jklhwbe$0;G}", *s))
			add(b, *s, 0, 0);
		if (strchr("$0^M%", *s))
			continue;	/* counts on these are not in the alphabet (DESIGN.md C07) */
		for (j = 0; j < 3; j++) {
			if (*s == 'G' && counts[j] > 3)
				continue;	/* NG beyond the last line: POSIX says error, neatvi clamps; not adjudicated */
			if (*s == 'j' && counts[j] == 2)
				continue;
			snprintf(b, sizeof(b), "%d%c", counts[j], *s);
			add(b, *s, 0, counts[j]);
		}
	}
	add("1G", 'G', 0, 1);
	add("|", '|', 0, 0);
	add("5|", '|', 0, 5);
	add("9|", '|', 0, 9);
	add("20|", '|', 0, 20);
	for (i = 0; i < 5; i++)
		for (s = "fFtT"; *s; s++) {
			snprintf(b, sizeof(b), "%c%s", *s, fch[i]);
			if (!(*s == 'f' && i == 0) && !(*s == 't' && i == 1))
				add(b, *s, fcp[i], 0);
			if (i < 2) {
				snprintf(b, sizeof(b), "2%c%s", *s, fch[i]);
				add(b, *s, fcp[i], 2);
			}
		}
}

static int state_bad;
static void pre_state(void)
{
	char *t;
	state_bad = 0;
	/* invariants in every state */
	t = lbuf_cp(xb, 0, lbuf_len(xb));
	if (strcmp(t, orig_text)) {
		nx_viol("c07-text", "a motion changed the text: now \"%s\"", nv_esc(t, -1));
		state_bad = 1;
	}
	free(t);
	if (lbuf_len(xb)) {
		char *ln = lbuf_get(xb, xrow);
		int n = ln ? uc_slen(ln) : 0;
		if (!ln || xoff < 0 || xoff >= n || (n > 1 && xoff == n - 1)) {
			nx_viol("c07-cursor-valid", "cursor (%d,%d) is not on an existing character (line has %d characters incl. newline)", xrow, xoff, n);
			state_bad = 1;
		}
	} else if (xrow != 0 || xoff != 0) {
		nx_viol("c07-cursor-valid", "cursor (%d,%d) in an empty buffer", xrow, xoff);
		state_bad = 1;
	}
	if (!nvx_idle && !state_bad) {
		nx_viol("c07-idle", "the editor is still inside a command after the motion keys%s", "");
		state_bad = 1;
	}
	if (nx_depth > 0 && !state_bad) {
		struct mop *m = &ops[nx_hist[nx_depth - 1]];
		struct rvcur before = C;
		int fail = rv_motion(&B, &C, m->key, m->arg, m->cnt, pre_xtop, buf_rows[cfg] - 1);
		if (xrow != C.r || xoff != C.o) {
			nx_viol("c07-position", "motion %s from (%d,%d) [sticky column %d] lands on (%d,%d), reference (%d,%d)%s",
				nv_esc(m->bytes, -1), before.r, before.o, before.xcol, xrow, xoff, C.r, C.o, fail ? " (the motion fails: cursor stays)" : "");
			state_bad = 1;
		}
		__sync_fetch_and_add(&nx_sh->hist[fail ? 1 : (before.r != C.r || before.o != C.o) ? 0 : 2], 1);
	}
	if (state_bad)
		nx_bound = nx_depth;
	pre_xtop = xtop;
}

static void nx_at_state(void) { }
static int nx_nops(void) { return core_only ? ncore : nops; }
static const char *nx_op_name(int k) { return nv_esc(ops[k].bytes, -1); }
static int nx_op_bytes(int k, char *buf, int max)
{
	(void) max;
	strcpy(buf, ops[k].bytes);
	return strlen(buf);
}
static int nx_enabled(int k)
{
	/* NG beyond the last line: POSIX says error, neatvi goes to the last line; not adjudicated */
	if (ops[k].key == 'G' && ops[k].cnt > B.n)
		return 0;
	return 1;
}
static unsigned long long nx_state_hash(void)
{
	/* the visible state plus the model's hidden one (sticky column, last find) and the window top */
	unsigned long long h = nv_hash(&cfg, sizeof(cfg), 0);
	h = nv_hash(&C, sizeof(C), h);
	h = nv_hash(&xtop, sizeof(xtop), h);
	return h;
}
static int nx_leaf_bytes(char *buf, int max)
{
	(void) max;
	/* the property's own observation: a marker typed at the cursor, then the buffer is written */
	strcpy(buf, "\x1biX\x1b:w! out\n:q!\n");
	return strlen(buf);
}
static void nx_at_exit(void)
{
	if (!nx_in_leaf)
		nx_viol("c07-exit", "the editor exited on a motion%s", "");
}
static const char *nx_config_name(void) { return cfg_name; }
static const char *hist_name(int i) { return i == 0 ? "moved" : i == 1 ? "motion_failed" : "stayed"; }

/* start from every position of the buffer: the start position is reached with NG and N| */
static void run_config(int b, int r, int o, int depth, int core)
{
	char *argv[] = {"vi", "-v", "f", NULL};
	char rows[8], setup[64] = "";
	cfg = b;
	core_only = core;
	vfs_n = 0;
	if (buftexts[b][0])
		vfs_put("f", buftexts[b], -1);
	rv_load(&B, buftexts[b]);
	memset(&C, 0, sizeof(C));
	free(orig_text);
	orig_text = strdup(buftexts[b]);
	snprintf(rows, sizeof(rows), "%d", buf_rows[b]);
	setenv("LINES", rows, 1);
	setenv("COLUMNS", "40", 1);
	if (B.n) {
		/* reach the start position by the reference-independent route: line by :N, column by N| */
		C.r = r;
		C.o = o;
		C.xcol = rv_col(&B, r, o);
		snprintf(setup, sizeof(setup), ":%d\n%d|", r + 1, C.xcol + 1);
	}
	snprintf(cfg_name, sizeof(cfg_name), "buf%d/start=(%d,%d)%s", b, r, o, core ? "/core" : "");
	nx_bound = depth;
	snprintf(nx_cfg_args, sizeof(nx_cfg_args), "cfg=%d,%d,%d core=%d", b, r, o, core);
	nvx_feed(setup, -1);
	nx_run(3, argv);
	nvx_pend_pos = nvx_pend_len = 0;
	nv_stat("configurations", 1);
	nv_stat("distinct_nontrivial", nx_sh->distinct);
	nx_report();
}

int main(int argc, char **argv)
{
	int b, r, o, d;
	long idx = 0;
	nv_init(argc, argv);
	nx_init(argc, argv, 1, 1 << 20);
	nx_hist_name = hist_name;
	nx_pre_state = pre_state;
	nx_shard_level = -1;
	nx_trace_every = atoi(nv_arg(argc, argv, "trace", nv_thorough ? "97" : "41"));
	setenv("EXINIT", "", 1);
	build_ops();
	d = atoi(nv_arg(argc, argv, "depth", nv_thorough ? "8" : "4"));
	if (nv_arg(argc, argv, "cfg", NULL)) {
		sscanf(nv_arg(argc, argv, "cfg", "0,0,0"), "%d,%d,%d", &b, &r, &o);
		nx_shard_div = 1;
		run_config(b, r, o, nx_replay_n >= 0 ? 8 : d, atoi(nv_arg(argc, argv, "core", "0")));
		return nv_finish();
	}
	/* every single motion from every start position */
	for (b = 0; b < NBUF; b++) {
		struct rvbuf tb;
		rv_load(&tb, buftexts[b]);
		for (r = 0; r < (tb.n ? tb.n : 1); r++)
			for (o = 0; o <= (tb.n ? rv_last(&tb, r) : 0); o++)
				if ((idx++ % nv_nshards) == nv_shard)
					run_config(b, r, o, 1, 0);
	}
	/* sequences over the core alphabet (the sticky column depends on history) */
	for (b = 0; b < NBUF; b++) {
		if (b == 3 || b == 4)
			continue;
		{
			struct rvbuf tb;
			rv_load(&tb, buftexts[b]);
			if ((idx++ % nv_nshards) == nv_shard)
				run_config(b, 0, 0, d + 1, 1);
			/* from the far end of the first and of the last line (sticky column across shorter lines) */
			if ((idx++ % nv_nshards) == nv_shard)
				run_config(b, 0, rv_last(&tb, 0), d + 1, 1);
			if ((idx++ % nv_nshards) == nv_shard)
				run_config(b, tb.n - 1, rv_last(&tb, tb.n - 1), d + 1, 1);
			if (nv_thorough && tb.n > 1 && (idx++ % nv_nshards) == nv_shard)
				run_config(b, 1, rv_last(&tb, 1) < 1 ? rv_last(&tb, 1) : 1, d + 1, 1);
		}
	}
	/* pairs over the full alphabet from the first buffer (thorough: three buffers) */
	for (b = 0; b < (nv_thorough ? 3 : 1); b++)
		if ((idx++ % nv_nshards) == nv_shard)
			run_config(b, 0, 0, 2, 0);
	nv_stat("max:depth", d + 1);
	nv_stat("alphabet_size", nv_shard == 0 ? nops : 0);
	if (nv_shard == 0)
		nv_sample("config=buf0/start=(1,3) op=\"3w\": cursor (row, offset) vs reference; in every state: text unchanged, cursor on an existing character, editor idle");
	return nv_finish();
}
