/* the repository's lbuf.c compiled unmodified, plus a read-only canonical serialisation of its state */
#include "lbuf.c"

/* appends a canonical description of the history shape to buf; sequence numbers are rank-compressed */
int peek_lbuf_canon(struct lbuf *lb, char *buf, int max)
{
	int o = 0, i, j;
	int seqs[4096], nseq = 0;
	/* distinct sequence numbers in order of appearance: entries, then zero / last / current */
	for (i = 0; i < lb->hist_n && nseq < 4000; i++) {
		for (j = 0; j < nseq; j++)
			if (seqs[j] == lb->hist[i].seq)
				break;
		if (j == nseq)
			seqs[nseq++] = lb->hist[i].seq;
	}
#define RANK(v, out) do { for (j = 0; j < nseq; j++) if (seqs[j] == (v)) break; out = j < nseq ? j : -1; } while (0)
	o += snprintf(buf + o, max - o, "n=%d u=%d|", lb->hist_n, lb->hist_u);
	for (i = 0; i < lb->hist_n && o < max - 200; i++) {
		int r;
		struct lopt *lo = &lb->hist[i];
		RANK(lo->seq, r);
		o += snprintf(buf + o, max - o, "%d:%d,%d,%d[%s][%s]|", r, lo->pos, lo->n_ins, lo->n_del,
			lo->ins ? lo->ins : "~", lo->del ? lo->del : "~");
	}
	{
		int rz, rl, rc, top = lb->hist_u ? lb->hist[lb->hist_u - 1].seq : lb->useq_last;
		RANK(lb->useq_zero, rz);
		RANK(lb->useq_last, rl);
		RANK(lb->useq, rc);
		/* what matters for the future: is the buffer dirty, does "last" equal "zero", would an edit join the top group */
		o += snprintf(buf + o, max - o, "z=%d l=%d c=%d dirty=%d lz=%d", rz, rl, rc, top != lb->useq_zero,
			lb->useq_last == lb->useq_zero);
	}
	return o;
}
int peek_lbuf_histn(struct lbuf *lb) { return lb->hist_n; }
int peek_lbuf_histu(struct lbuf *lb) { return lb->hist_u; }
int peek_lbuf_lnsz(struct lbuf *lb) { return lb->ln_sz; }
