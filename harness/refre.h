/*
 * ref_re: reference regular-expression semantics over a pattern AST (DESIGN.md appendix A).
 *  (a) all-spans: the relation M(pattern) on positions, computed bottom-up as boolean matrices;
 *  (b) first-parse: leftmost, greedy, left-biased search with group spans, by continuation passing.
 * Shares no structure with regex.c (which compiles to a fork/jump program).
 */
#ifndef REFRE_H
#define REFRE_H
#include <string.h>
#include <ctype.h>

enum { RK_ATOM, RK_CAT, RK_ALT, RK_GRP, RK_REP };
enum { AT_LIT, AT_ANY, AT_BRK, AT_BOL, AT_EOL, AT_WBEG, AT_WEND };

#define RR_MAXNODE 64
#define RR_MAXPOS 40		/* positions (character boundaries) per subject */
#define RR_MAXGRP 16

struct rr_node {
	int kind;
	int l, r;		/* children (RK_GRP: l or -1 for "()") */
	int min, max;		/* RK_REP; max < 0: unbounded */
	int grp;		/* RK_GRP: group number (1-based within the pattern) */
	int at;			/* RK_ATOM: AT_* */
	const char *lit;	/* AT_LIT: the literal bytes (one character) */
	int brk_neg;		/* AT_BRK */
	const char *brk_set;	/* AT_BRK: explicit ASCII members, e.g. "ab"; NULL for class alpha */
	unsigned brk_cp;	/* AT_BRK: one further member outside ASCII (0: none) */
	int brk_upper;		/* AT_BRK: the class [:upper:] (under ignore-case: any letter) */
	int brk_alpha;		/* AT_BRK: [[:alpha:]] */
};

struct rr_ast {
	struct rr_node n[RR_MAXNODE];
	int cnt, root, ngrp;
};

struct rr_subj {
	const char *s;
	int len;		/* bytes */
	int np;			/* number of positions = characters + 1 */
	int off[RR_MAXPOS];	/* byte offset of each position */
	int icase, notbol, noteol;
	int q;			/* context start (position index) for word/line context; normally 0 */
};

static int rr_uclen(const unsigned char *s)
{
	if (s[0] < 0x80) return 1;
	if (s[0] < 0xe0) return 2;
	if (s[0] < 0xf0) return 3;
	return 4;
}

static void rr_subj_init(struct rr_subj *sj, const char *s, int icase, int notbol, int noteol)
{
	int o = 0;
	sj->s = s;
	sj->len = strlen(s);
	sj->np = 0;
	while (o < sj->len && sj->np < RR_MAXPOS - 1) {
		sj->off[sj->np++] = o;
		o += rr_uclen((const unsigned char *) s + o);
	}
	sj->off[sj->np++] = sj->len;
	sj->icase = icase;
	sj->notbol = notbol;
	sj->noteol = noteol;
	sj->q = 0;
}

static int rr_isword(int c)
{
	return c > 127 || isalnum(c) || c == '_';
}

static int rr_fold(int c)
{
	return c < 128 && c >= 'A' && c <= 'Z' ? c - 'A' + 'a' : c;
}

/* does atom nd match at position p?  returns the next position or -1 */
static int rr_atom(const struct rr_node *nd, const struct rr_subj *sj, int p)
{
	const unsigned char *s = (const unsigned char *) sj->s;
	int o = sj->off[p];
	int c = s[o];
	int before = o > 0 ? s[o - 1] : -1;
	switch (nd->at) {
	case AT_LIT: {
		int l = strlen(nd->lit);
		if (o + l > sj->len)
			return -1;
		if (l == 1) {
			int a = (unsigned char) nd->lit[0];
			if (sj->icase ? rr_fold(a) != rr_fold(c) : a != c)
				return -1;
		} else if (memcmp(s + o, nd->lit, l)) {
			return -1;
		}
		return p + 1;
	}
	case AT_ANY:
		if (o >= sj->len || c == '\n')
			return -1;
		return p + 1;
	case AT_BRK: {
		int in = 0, cc = c;
		if (o >= sj->len)
			return -1;
		if (c == '\n' && nd->brk_neg)
			return -1;
		if (sj->icase)
			cc = rr_fold(c);
		if (c < 128) {
			if (nd->brk_alpha)
				in = (cc >= 'a' && cc <= 'z') || (cc >= 'A' && cc <= 'Z');
			else if (nd->brk_upper)
				in = sj->icase ? (c >= 'a' && c <= 'z') || (c >= 'A' && c <= 'Z') : (c >= 'A' && c <= 'Z');
			else {
				const char *m;
				for (m = nd->brk_set; *m; m++)
					if ((sj->icase ? rr_fold((unsigned char) *m) : (unsigned char) *m) == cc)
						in = 1;
			}
		}
		if (nd->brk_cp && c >= 0xc0) {
			unsigned cp = c < 0xe0 ? ((c & 0x1fu) << 6) | (s[o + 1] & 0x3f) :
				c < 0xf0 ? ((c & 0x0fu) << 12) | ((s[o + 1] & 0x3fu) << 6) | (s[o + 2] & 0x3f) :
				((c & 0x07u) << 18) | ((s[o + 1] & 0x3fu) << 12) | ((s[o + 2] & 0x3fu) << 6) | (s[o + 3] & 0x3f);
			if (cp == nd->brk_cp)
				in = 1;
		}
		return in != nd->brk_neg ? p + 1 : -1;
	}
	case AT_BOL:
		if (o == 0)
			return sj->notbol ? -1 : p;
		return before == '\n' && o < sj->len ? p : -1;	/* not after the newline that ends the subject */
	case AT_EOL:
		if (o == sj->len)
			return sj->noteol ? -1 : p;
		return c == '\n' ? p : -1;
	case AT_WBEG:
		if ((p == sj->q || o == 0 || !rr_isword(before)) && o < sj->len && rr_isword(c))
			return p;
		return -1;
	case AT_WEND:
		if (p > sj->q && o > 0 && rr_isword(before) && (o == sj->len || !rr_isword(c)))
			return p;
		return -1;
	}
	return -1;
}

/* ---- (a) all-spans ----------------------------------------------------------------------- */
typedef unsigned long long rr_row;	/* bit j set: (i, j) in the relation */
struct rr_mat { rr_row r[RR_MAXPOS]; };

static void rr_mat_id(struct rr_mat *m, int np)
{
	int i;
	for (i = 0; i < np; i++)
		m->r[i] = 1ull << i;
}

static void rr_mat_mul(struct rr_mat *d, const struct rr_mat *a, const struct rr_mat *b, int np)
{
	struct rr_mat t;
	int i, j;
	for (i = 0; i < np; i++) {
		rr_row row = 0;
		for (j = 0; j < np; j++)
			if (a->r[i] >> j & 1)
				row |= b->r[j];
		t.r[i] = row;
	}
	*d = t;
}

static void rr_mat_or(struct rr_mat *d, const struct rr_mat *a, int np)
{
	int i;
	for (i = 0; i < np; i++)
		d->r[i] |= a->r[i];
}

static void rr_mat_star(struct rr_mat *d, const struct rr_mat *a, int np)
{
	struct rr_mat t, u;
	int k;
	rr_mat_id(&t, np);
	for (k = 0; k < np + 1; k++) {
		rr_mat_mul(&u, &t, a, np);
		rr_mat_or(&t, &u, np);
	}
	*d = t;
}

static void rr_spans(const struct rr_ast *a, int nd, const struct rr_subj *sj, struct rr_mat *out)
{
	const struct rr_node *n = &a->n[nd];
	struct rr_mat x, y, z;
	int i, k;
	int np = sj->np;
	switch (n->kind) {
	case RK_ATOM:
		for (i = 0; i < np; i++) {
			int j = rr_atom(n, sj, i);
			out->r[i] = j >= 0 ? 1ull << j : 0;
		}
		return;
	case RK_CAT:
		rr_spans(a, n->l, sj, &x);
		rr_spans(a, n->r, sj, &y);
		rr_mat_mul(out, &x, &y, np);
		return;
	case RK_ALT:
		rr_spans(a, n->l, sj, out);
		rr_spans(a, n->r, sj, &y);
		rr_mat_or(out, &y, np);
		return;
	case RK_GRP:
		if (n->l < 0)
			rr_mat_id(out, np);
		else
			rr_spans(a, n->l, sj, out);
		return;
	case RK_REP:
		rr_spans(a, n->l, sj, &x);
		rr_mat_id(out, np);
		for (k = 0; k < n->min; k++)
			rr_mat_mul(out, out, &x, np);
		if (n->max < 0) {
			rr_mat_star(&y, &x, np);
			rr_mat_mul(out, out, &y, np);
		} else {
			rr_mat_id(&z, np);
			rr_mat_or(&z, &x, np);		/* id | x */
			for (k = n->min; k < n->max; k++)
				rr_mat_mul(out, out, &z, np);
		}
		return;
	}
}

/* can the sub-term match the empty string somewhere (syntactically)? */
static int rr_nullable(const struct rr_ast *a, int nd)
{
	const struct rr_node *n = &a->n[nd];
	switch (n->kind) {
	case RK_ATOM:
		return n->at >= AT_BOL;
	case RK_CAT:
		return rr_nullable(a, n->l) && rr_nullable(a, n->r);
	case RK_ALT:
		return rr_nullable(a, n->l) || rr_nullable(a, n->r);
	case RK_GRP:
		return n->l < 0 || rr_nullable(a, n->l);
	case RK_REP:
		return n->min == 0 || rr_nullable(a, n->l);
	}
	return 0;
}

/* does the pattern contain an unbounded repetition of a nullable sub-term? */
static int rr_nullable_star(const struct rr_ast *a, int nd)
{
	const struct rr_node *n = &a->n[nd];
	if (n->kind == RK_ATOM)
		return 0;
	/* a repeated group that matched the empty string is not repeated again (regex.c re_rec(), for the
	 * groups whose marks are recorded); other nullable repetitions run into the recursion limit */
	if (n->kind == RK_REP && n->max < 0 && rr_nullable(a, n->l) &&
			!(a->n[n->l].kind == RK_GRP && a->n[n->l].grp < 32))
		return 1;
	if (n->kind == RK_GRP)
		return n->l >= 0 && rr_nullable_star(a, n->l);
	if (n->kind == RK_REP)
		return rr_nullable_star(a, n->l);
	return rr_nullable_star(a, n->l) || rr_nullable_star(a, n->r);
}

/* ---- (b) first-parse ------------------------------------------------------------------------ */
struct rr_k {			/* continuation frame */
	int type;		/* 0: match node; 1: end of group; 2: repetition bookkeeping; 3: accept */
	int node, cnt;
	int pos;		/* type 2: where the iteration that has just ended began */
	const struct rr_k *next;
};

struct rr_run {
	const struct rr_ast *a;
	const struct rr_subj *sj;
	int grp[RR_MAXGRP * 2];	/* positions (indices), -1 unset; group 0 = whole match */
	int endpos;
	long steps;
};

static int rr_m(struct rr_run *R, int nd, int p, const struct rr_k *k);

static int rr_cont(struct rr_run *R, const struct rr_k *k, int p)
{
	struct rr_k f;
	const struct rr_node *n;
	if (++R->steps > 2000000)
		return 0;
	switch (k->type) {
	case 3:
		R->endpos = p;
		return 1;
	case 0:
		return rr_m(R, k->node, p, k->next);
	case 1: {
		int g = R->a->n[k->node].grp;
		int old = R->grp[g * 2 + 1];
		R->grp[g * 2 + 1] = p;
		if (rr_cont(R, k->next, p))
			return 1;
		R->grp[g * 2 + 1] = old;
		return 0;
	}
	case 2: {
		int sav[RR_MAXGRP * 2];
		int need;
		n = &R->a->n[k->node];
		need = n->min > 1 ? n->min : 1;
		f = *k;
		f.pos = p;
		if (k->cnt < need) {			/* mandatory copies */
			f.cnt = k->cnt + 1;
			return rr_m(R, n->l, p, &f);
		}
		memcpy(sav, R->grp, sizeof(sav));
		if (n->max < 0) {			/* loop on the last copy, greedy */
			/* an empty iteration of a group ends the loop */
			if (p == k->pos && R->a->n[n->l].kind == RK_GRP && R->a->n[n->l].grp < 32)
				return rr_cont(R, k->next, p);
			if (rr_m(R, n->l, p, &f))
				return 1;
			memcpy(R->grp, sav, sizeof(sav));
			return rr_cont(R, k->next, p);
		}
		if (k->cnt < n->max) {			/* optional copies, greedy */
			f.cnt = k->cnt + 1;
			if (rr_m(R, n->l, p, &f))
				return 1;
			memcpy(R->grp, sav, sizeof(sav));
		}
		return rr_cont(R, k->next, p);
	}
	}
	return 0;
}

static int rr_m(struct rr_run *R, int nd, int p, const struct rr_k *k)
{
	const struct rr_node *n = &R->a->n[nd];
	struct rr_k f;
	int sav[RR_MAXGRP * 2];
	int j;
	switch (n->kind) {
	case RK_ATOM:
		j = rr_atom(n, R->sj, p);
		return j >= 0 && rr_cont(R, k, j);
	case RK_CAT:
		f.type = 0; f.node = n->r; f.cnt = 0; f.next = k;
		return rr_m(R, n->l, p, &f);
	case RK_ALT:
		memcpy(sav, R->grp, sizeof(sav));
		if (rr_m(R, n->l, p, k))
			return 1;
		memcpy(R->grp, sav, sizeof(sav));
		return rr_m(R, n->r, p, k);
	case RK_GRP:
		memcpy(sav, R->grp, sizeof(sav));
		R->grp[n->grp * 2] = p;
		f.type = 1; f.node = nd; f.cnt = 0; f.next = k;
		if (n->l < 0 ? rr_cont(R, &f, p) : rr_m(R, n->l, p, &f))
			return 1;
		memcpy(R->grp, sav, sizeof(sav));
		return 0;
	case RK_REP:
		if (n->min == 0 && n->max == 0)
			return rr_cont(R, k, p);
		f.type = 2; f.node = nd; f.cnt = 1; f.next = k; f.pos = p;
		if (n->min == 0) {
			memcpy(sav, R->grp, sizeof(sav));
			if (rr_m(R, n->l, p, &f))
				return 1;
			memcpy(R->grp, sav, sizeof(sav));
			return rr_cont(R, k, p);
		}
		return rr_m(R, n->l, p, &f);
	}
	return 0;
}

/*
 * leftmost first-parse: returns 1 and fills so/eo/groups (byte offsets, -1 unset) or 0.
 * Only defined for patterns without a nullable starred sub-term.
 */
static int rr_first_from(const struct rr_ast *a, const struct rr_subj *sj, int p0, int *grps, int ngrps);
static int rr_first(const struct rr_ast *a, const struct rr_subj *sj, int *grps, int ngrps)
{
	return rr_first_from(a, sj, 0, grps, ngrps);
}

/* the same, considering only matches that start at position index >= p0 */
static int rr_first_from(const struct rr_ast *a, const struct rr_subj *sj, int p0, int *grps, int ngrps)
{
	struct rr_run R;
	struct rr_k acc = {3, 0, 0, 0, NULL};
	int s, i;
	R.a = a;
	R.sj = sj;
	R.steps = 0;
	for (s = p0; s < sj->np; s++) {
		for (i = 0; i < RR_MAXGRP * 2; i++)
			R.grp[i] = -1;
		if (rr_m(&R, a->root, s, &acc)) {
			grps[0] = sj->off[s];
			grps[1] = sj->off[R.endpos];
			for (i = 1; i < ngrps; i++) {
				int b = i < RR_MAXGRP ? R.grp[i * 2] : -1, e = i < RR_MAXGRP ? R.grp[i * 2 + 1] : -1;
				grps[i * 2] = b >= 0 && e >= 0 ? sj->off[b] : -1;
				grps[i * 2 + 1] = b >= 0 && e >= 0 ? sj->off[e] : -1;
			}
			return 1;
		}
	}
	return 0;
}
#endif
