/* C14: substitute rewrites exactly the leftmost non-overlapping matches (through the real :s command) */
#include "nvenv.h"
#include "vi.h"
#include "refre_build.h"

extern int nv_re_depthhit;
extern int xic;

static void nx_choice(void)
{
	nv_err("unexpected read from standard input");
	_exit(2);
}

/* curated patterns (prefix codes, see refre_build.h) */
static const char *pcodes[] = {
	"a", "Cab", "g", "Cha", "Cai", "Chi", "Cja", "Cak", "CjCaCbk", "*a", "*l", "c", "Aab", "CGa?Gb", "+d", "AGab",
	"CG*aG*b", "2a", "j", "k", "i", "h", "*b", "Cj*a", "CcCkc", "Ce*a", "C*ai", "AChai", "G*a", "CGAabGc", "Cm*a", "+f",
	"n", "o", "*n", "Cno", "+o", "*g", "Ca*g", "C+ga", "?g",
	"p", "q", "+p", "Cpq",	/* a character class whose meaning depends on ignore-case */	/* bracket expressions with a multi-byte member: a match never starts inside a character */
};
#define NPC ((int) (sizeof(pcodes) / sizeof(pcodes[0])))

static const char *reps[] = {"", "X", "\\0", "\\1", "\\2", "[\\1\\2]", "\\\\", "\\/", "\\x", "\xc3\xa9", "<\\0\\0>", "\\9", "\\n", "a\\tb", "x|y", "\\/|y"};
#define NREP 16
static const char *lalpha[] = {"a", "b", " ", "\xc3\xa9", "A", "\xc3\xa8"};	/* U+00E8 shares its lead byte with U+00E9 */
#define NLA 6

static char (*lines)[32];
static long nlines;
static void gen_lines(int maxn)
{
	long cnt, k, tot = 0, c;
	int n, i;
	for (n = 0, c = 1; n <= maxn; n++, c *= NLA)
		tot += c;
	lines = malloc(tot * sizeof(lines[0]));
	for (n = 0, cnt = 1; n <= maxn; n++, cnt *= NLA)
		for (k = 0; k < cnt; k++) {
			long v = k;
			char *d = lines[nlines++];
			d[0] = '\0';
			for (i = 0; i < n; i++) {
				strcat(d, lalpha[v % NLA]);
				v /= NLA;
			}
			strcat(d, "\n");
		}
}

/* replacement expansion per the property: \0-\9 group text (empty when unset), \c = c, else literal */
static void expand(char *out, const char *rep, const char *ln, const int *g, int ng)
{
	int o = strlen(out);
	while (*rep) {
		if (rep[0] == '\\' && rep[1]) {
			if (rep[1] >= '0' && rep[1] <= '9') {
				int d = rep[1] - '0';
				if (d < ng && g[d * 2] >= 0) {
					memcpy(out + o, ln + g[d * 2], g[d * 2 + 1] - g[d * 2]);
					o += g[d * 2 + 1] - g[d * 2];
				}
			} else {
				out[o++] = rep[1];
			}
			rep += 2;
		} else {
			out[o++] = *rep++;
		}
	}
	out[o] = '\0';
}

/* what re_read() makes of the replacement text typed after s/pat/: \/ becomes / */
static void typed_to_rep(const char *typed, char *rep)
{
	int o = 0;
	while (*typed) {
		if (typed[0] == '\\' && typed[1]) {
			if (typed[1] != '/')
				rep[o++] = '\\';
			rep[o++] = typed[1];
			typed += 2;
		} else {
			rep[o++] = *typed++;
		}
	}
	rep[o] = '\0';
}

/*
 * the substitute rule on one line.  lost_context: judge word boundaries at the point where the scan
 * resumes as if the line started there (the listed deviation), instead of in the whole line.
 */
static void ref_subst(const struct rr_ast *a, const char *ln, const char *rep, int gflag, int icase, int lost_context, char *out, int *changed)
{
	struct rr_subj sj;
	int g[RR_MAXGRP * 2];
	int ng = a->ngrp + 1 < RR_MAXGRP ? a->ngrp + 1 : RR_MAXGRP;
	int pos = 0;		/* position index */
	int copied = 0;		/* bytes of the line already copied */
	rr_subj_init(&sj, ln, icase, 0, 0);
	out[0] = '\0';
	*changed = 0;
	while (1) {
		int so, eo;
		if (lost_context)
			sj.q = pos;
		if (!rr_first_from(a, &sj, pos, g, ng))
			break;
		so = g[0];
		eo = g[1];
		*changed = 1;
		strncat(out, ln + copied, so - copied);
		expand(out, rep, ln, g, ng);
		copied = eo;
		/* advance the scan position to the end of the match */
		for (pos = 0; sj.off[pos] < eo; pos++)
			;
		if (eo == so) {			/* empty match: copy one character and go on */
			int l = sj.off[pos + 1 < sj.np ? pos + 1 : pos] - sj.off[pos];
			if (pos + 1 >= sj.np)
				break;
			strncat(out, ln + copied, l);
			copied += l;
			pos++;
		}
		if (!gflag || pos >= sj.np - 1 || ln[sj.off[pos]] == '\n')
			break;
	}
	strcat(out, ln + copied);
}

static int valid_utf8(const char *s)
{
	const unsigned char *u = (const unsigned char *) s;
	while (*u) {
		int l = *u < 0x80 ? 1 : (*u & 0xe0) == 0xc0 ? 2 : (*u & 0xf0) == 0xe0 ? 3 : (*u & 0xf8) == 0xf0 ? 4 : 0, i;
		if (!l)
			return 0;
		for (i = 1; i < l; i++)
			if ((u[i] & 0xc0) != 0x80)
				return 0;
		u += l;
	}
	return 1;
}

static long n_sub, n_changed, cases_since_clear;
static int trace_every;
static struct plist extra;	/* size <= 2 ASTs */
static int maxlen_curated, maxlen_small;

static void one_pattern(const char *code, long nl)
{
	struct rr_ast a;
	char pat[128] = "";
	int root, ri, gflag, ic;
	long k;
	memset(&a, 0, sizeof(a));
	build(&a, code, &root);
	a.root = root;
	print(code, pat);
	if (rr_nullable_star(&a, a.root))
		return;
	nv_guard(800, "c14-hang", "pattern=\"%s\"", nv_esc(pat, -1));
	for (ic = 0; ic < 2; ic++) {
		char setcmd[32];
		snprintf(setcmd, sizeof(setcmd), "se %sic", ic ? "" : "no");
		ex_command(setcmd);
		for (ri = 0; ri < NREP; ri++) {
			char rep[64];
			typed_to_rep(reps[ri], rep);
			for (gflag = 0; gflag < 2; gflag++) {
				char cmd[256];
				snprintf(cmd, sizeof(cmd), "2s/%s/%s/%s", pat, reps[ri], gflag ? "g" : "");
				for (k = 0; k < nl; k++) {
					char buf[128], exp[512], dev[512];
					char *got;
					int ch1, ch2;
					/* three lines: the one under test in the middle */
					snprintf(buf, sizeof(buf), "a b\n%sb a\n", lines[k]);
					lbuf_edit(xb, buf, 0, lbuf_len(xb));
					nv_re_depthhit = 0;
					nvx_exout_reset();
					ex_command(cmd);
					n_sub++;
					if (++cases_since_clear > 2000) {
						lbuf_saved(xb, 1);
						cases_since_clear = 0;
					}
					ref_subst(&a, lines[k], rep, gflag, ic, 0, exp, &ch1);
					n_changed += ch1;
					if (lbuf_len(xb) < 3 || strcmp(lbuf_get(xb, 0), "a b\n") || strcmp(lbuf_get(xb, lbuf_len(xb) - 1), "b a\n")) {
						nv_viol("c14-otherlines", "kind=subst cmd=\":%s\" ic=%d line=\"%s\": a line outside the range changed or lines were added (buffer now %d lines)",
							nv_esc(cmd, -1), ic, nv_esc(lines[k], -1), lbuf_len(xb));
						continue;
					}
					got = lbuf_cp(xb, 1, lbuf_len(xb) - 1);
					if (trace_every && !strcmp(got, exp) && (n_sub % trace_every) == 17 && !strchr(pat, '"') && !strchr(rep, '"')) {
						char inp[512], whole[256];
						snprintf(inp, sizeof(inp), "%s\nw! out\nq!\n", cmd);
						snprintf(whole, sizeof(whole), "a b\n%sb a\n", got);
						nv_trace_ex(ic ? "" : "se noic", "f", buf, inp, "out", whole, NULL, NULL);
					}
					if (strcmp(got, exp)) {
						ref_subst(&a, lines[k], rep, gflag, ic, 1, dev, &ch2);
						if (nv_re_depthhit)
							;
						else if (!strcmp(got, dev))
							nv_dev("c14-wordboundary-resumed", "kind=subst cmd=\":%s\" ic=%d line=\"%s\" result=\"%s\" reference=\"%s\" (word boundary judged at the resumed offset without its left neighbour)",
								nv_esc(cmd, -1), ic, nv_esc(lines[k], -1), nv_esc(got, -1), nv_esc(exp, -1));
						else
							nv_viol("c14-result", "kind=subst cmd=\":%s\" ic=%d line=\"%s\" result=\"%s\" reference=\"%s\"",
								nv_esc(cmd, -1), ic, nv_esc(lines[k], -1), nv_esc(got, -1), nv_esc(exp, -1));
					}
					/* C16 (d): whatever the substitution did, valid UTF-8 stays valid UTF-8 */
					if (!nv_re_depthhit && valid_utf8(lines[k]) && !valid_utf8(got))
						nv_viol("c16-invalid-utf8", "kind=subst cmd=\":%s\" ic=%d line=\"%s\": the result \"%s\" is not valid UTF-8", nv_esc(cmd, -1), ic, nv_esc(lines[k], -1), nv_esc(got, -1));
					if (0) {
						nv_viol("c14-utf8", "kind=subst cmd=\":%s\" line=\"%s\" result is not valid UTF-8", nv_esc(cmd, -1), nv_esc(lines[k], -1));
					}
					free(got);
				}
			}
		}
	}
	nv_stat("patterns", 1);
}

/* ranges and the empty pattern, on a fixed 4-line buffer */
static void range_cases(void)
{
	static const struct { const char *setup, *cmd, *expect; } rc[] = {
		{"", "s/a/X/", "Xa\nab\nba\naa\n"},
		{"", "1,2s/a/X/", "Xa\nXb\nba\naa\n"},
		{"", "%s/a/X/", "Xa\nXb\nbX\nXa\n"},
		{"", "2,$s/a/X/g", "aa\nXb\nbX\nXX\n"},
		{"", "3s/a/X/", "aa\nab\nbX\naa\n"},
		{"", "%s/b/Y/g", "aa\naY\nYa\naa\n"},
		{"", "%s/^a/Z/g", "Za\nZb\nba\nZa\n"},
		{"", "%s/a$/Z/g", "aZ\nab\nbZ\naZ\n"},
		{"2s/b/b/", "%s//Q/", "aa\naQ\nQa\naa\n"},
		{"s/a/a/", "%s//W/", "Wa\nWb\nbW\nWa\n"},
		{"", "%s/zz/W/", "aa\nab\nba\naa\n"},
		{"", "$s/a/[\\0]/g", "aa\nab\nba\n[a][a]\n"},
		{"", "2s/\\(a\\)\\(b\\)/\\2\\1/", "aa\nab\nba\naa\n"},
		{"", "2s/(a)(b)/\\2\\1/", "aa\nba\nba\naa\n"},
		{"", "%s/(b)|a/<\\1>/", "<>a\n<>b\n<b>a\n<>a\n"},
		/* what is remembered from an earlier :s: a pattern without a replacement part replaces by nothing */
		{"1s/a/X/", "2s/b", "Xa\na\nba\naa\n"},
		{"1s/a/X/", "2s/b/", "Xa\na\nba\naa\n"},
		{"1s/a/X/", "2s//", "Xa\nb\nba\naa\n"},
		{"1s/a/X/", "2s//Y/", "Xa\nYb\nba\naa\n"},
		{"1s/a/X/", "2s", "Xa\nXb\nba\naa\n"},
		{"1s/b/X/", "3,4s//[\\0]/g", "aa\nab\n[b]a\naa\n"},
	};
	unsigned i;
	ex_command("se noic");
	for (i = 0; i < sizeof(rc) / sizeof(rc[0]); i++) {
		char *got;
		lbuf_edit(xb, "aa\nab\nba\naa\n", 0, lbuf_len(xb));
		ex_command("1");
		if (rc[i].setup[0])
			ex_command((char *) rc[i].setup);
		ex_command((char *) rc[i].cmd);
		got = lbuf_cp(xb, 0, lbuf_len(xb));
		n_sub++;
		if (strcmp(got, rc[i].expect))
			nv_viol("c14-range", "kind=range setup=\"%s\" cmd=\":%s\" on \"aa|ab|ba|aa\": result \"%s\" expected \"%s\"", rc[i].setup, nv_esc(rc[i].cmd, -1), nv_esc(got, -1), nv_esc(rc[i].expect, -1));
		free(got);
	}
}

static long my_n;
static void run_case(long j)
{
	long i = j * nv_nshards + nv_shard;
	n_sub = n_changed = 0;
	if (i < NPC)
		one_pattern(pcodes[i], nlines);
	else if (i - NPC < alt[1].n + alt[2].n) {
		long k = i - NPC;
		long small = 0, c = 1;
		int n;
		for (n = 0; n <= maxlen_small; n++, c *= NLA)
			small += c;
		one_pattern(k < alt[1].n ? alt[1].v[k] : alt[2].v[k - alt[1].n], small);
	} else {
		range_cases();
	}
	nv_stat("substitutions", n_sub);
	nv_stat("transitions", n_sub);
	nv_stat("states", n_sub);
	nv_stat("evaluations", n_sub);
	nv_stat("distinct_nontrivial", n_changed);
	if (j == 0 && nv_shard == 0)
		nv_sample("cmd=\":2s/\\\\<a/[\\\\1\\\\2]/g\" on every line of <= %d characters over {a,b,space,U+00E9,A} between two guard lines, ic on/off: resulting line vs the substitute rule on the reference regex semantics", maxlen_curated);
}

static void desc_case(long j, char *buf, int len)
{
	long i = j * nv_nshards + nv_shard;
	char pat[128] = "";
	if (i < NPC)
		print(pcodes[i], pat);
	else if (i - NPC < alt[1].n + alt[2].n)
		print(i - NPC < alt[1].n ? alt[1].v[i - NPC] : alt[2].v[i - NPC - alt[1].n], pat);
	snprintf(buf, len, ":s with pattern \"%s\" (some replacement / line of the enumeration)", nv_esc(pat, -1));
}

int main(int argc, char **argv)
{
	static char *files[] = {"f", NULL};
	long total;
	char errpath[512];
	nv_init(argc, argv);
	maxlen_curated = atoi(nv_arg(argc, argv, "len", nv_thorough ? "6" : "4"));
	maxlen_small = atoi(nv_arg(argc, argv, "slen", nv_thorough ? "4" : "3"));
	trace_every = atoi(nv_arg(argc, argv, "trace", nv_thorough ? "49999" : "6007"));
	gen(2);
	gen_lines(maxlen_curated);
	vfs_put("f", "x\n", -1);
	dir_init();
	syn_init();
	if (ex_init(files)) {
		nv_err("ex_init failed");
		return 2;
	}
	total = NPC + alt[1].n + alt[2].n + 1;
	my_n = (total - nv_shard + nv_nshards - 1) / nv_nshards;
	snprintf(errpath, sizeof(errpath), "%s.err", nv_arg(argc, argv, "out", "c14"));
	nv_forkloop(my_n, run_case, desc_case, "c14-memory", errpath);
	nv_stat("max:line_len", maxlen_curated);
	return nv_finish();
}
