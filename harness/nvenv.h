/*
 * nvenv.h: the editor runs in-process (nv_main) behind link-time wrapped libc calls.
 *  - in-memory VFS with a virtual clock and a fault plan (open/read/write/close/ftruncate/stat/access)
 *  - input from a pending buffer; when it runs dry the editor is at a CHOICE POINT and nx_choice() runs
 *  - fork-snapshot depth-first exploration from inside the wrapped read()/getc()
 * Included once by each editor-level harness, which defines the nx_* callbacks declared below.
 */
#ifndef NVENV_H
#define NVENV_H
#define NV_WRAPPED 1
#include <errno.h>
#include <fcntl.h>
#include <poll.h>
#include <signal.h>
#include <stdarg.h>
#include <stdio.h>
#include <stdlib.h>
#include <string.h>
#include <sys/mman.h>
#include <sys/stat.h>
#include <sys/wait.h>
#include <termios.h>
#include <unistd.h>

int __real_open(const char *path, int flags, ...);
ssize_t __real_read(int fd, void *buf, size_t n);
ssize_t __real_write(int fd, const void *buf, size_t n);
int __real_close(int fd);
int __real_ftruncate(int fd, off_t len);
int __real_stat(const char *path, struct stat *st);
int __real_access(const char *path, int mode);
int __real_poll(struct pollfd *fds, nfds_t n, int timeout);
int __real_getc(FILE *f);

#include "nvh.h"

int nv_main(int argc, char **argv);

/* ===== VFS ========================================================================================== */
#define VFS_MAXFILES 40
#define VFS_FD0 1000
struct vfile {
	char path[96];
	char *data;
	long len, cap;
	int exists;
	long mtime;
	long writes;		/* number of write calls that touched it (to tell "untouched") */
};
static struct vfile vfs[VFS_MAXFILES];
static int vfs_n;
static long vfs_clock = 1000;
static struct { int used, file, flags, wrote, readc; long off; } vfds[16];
/* called when the editor closes a VFS file: did = 1 read, 2 written, 3 both */
static void (*nvx_close_hook)(struct vfile *f, int did);

static struct vfile *vfs_find(const char *path)
{
	int i;
	for (i = 0; i < vfs_n; i++)
		if (!strcmp(vfs[i].path, path))
			return &vfs[i];
	return NULL;
}

static struct vfile *vfs_slot(const char *path)
{
	struct vfile *f = vfs_find(path);
	if (f)
		return f;
	if (vfs_n == VFS_MAXFILES || !path[0] || strlen(path) >= sizeof(vfs[0].path))
		return NULL;
	f = &vfs[vfs_n++];
	memset(f, 0, sizeof(*f));
	strcpy(f->path, path);
	return f;
}

static void vfs_setlen(struct vfile *f, long len)
{
	if (len + 1 > f->cap) {
		f->cap = (len + 1) * 2 + 64;
		f->data = realloc(f->data, f->cap);
	}
	if (len > f->len)
		memset(f->data + f->len, 0, len - f->len);
	f->len = len;
	f->data[len] = '\0';
}

/* harness side: create / replace a file (the "outside world" writes it at the current clock) */
static struct vfile *vfs_put(const char *path, const char *data, long len)
{
	struct vfile *f = vfs_slot(path);
	if (!f)
		return NULL;
	if (len < 0)
		len = strlen(data);
	f->len = 0;
	vfs_setlen(f, len);
	memcpy(f->data, data, len);
	f->exists = 1;
	f->mtime = vfs_clock;
	return f;
}

static void vfs_remove(const char *path)
{
	struct vfile *f = vfs_find(path);
	if (f)
		f->exists = 0;
}

static void vfs_tick(long s)
{
	vfs_clock += s;
}

/* ===== fault plan ==================================================================================== */
enum { FK_OPEN = 1, FK_READ, FK_WRITE, FK_CLOSE };
struct nvx_fault {
	int kind;		/* FK_* */
	int nth;		/* 0-based index among the calls of that kind since nvx_plan_arm() */
	long count;		/* >= 0: short count to return; < 0: fail with err */
	int err;
};
static struct nvx_fault nvx_plan[4];
static int nvx_nplan;
static int nvx_calls[5];	/* calls seen per kind since arming */
static int nvx_plan_fired;	/* bitmask of plan entries that fired */
#define NVX_LOGMAX 256
static struct { int kind; long req, ret; } nvx_log[NVX_LOGMAX];
static int nvx_nlog;
static int nvx_logging;

static void nvx_plan_arm(void)
{
	memset(nvx_calls, 0, sizeof(nvx_calls));
	nvx_plan_fired = 0;
	nvx_nlog = 0;
	nvx_logging = 1;
}

static struct nvx_fault *nvx_fault_for(int kind)
{
	int i, nth = nvx_calls[kind]++;
	for (i = 0; i < nvx_nplan; i++)
		if (nvx_plan[i].kind == kind && nvx_plan[i].nth == nth) {
			nvx_plan_fired |= 1 << i;
			return &nvx_plan[i];
		}
	return NULL;
}

static void nvx_logcall(int kind, long req, long ret)
{
	if (nvx_logging && nvx_nlog < NVX_LOGMAX) {
		nvx_log[nvx_nlog].kind = kind;
		nvx_log[nvx_nlog].req = req;
		nvx_log[nvx_nlog++].ret = ret;
	}
}

/* ===== input / output plumbing ====================================================================== */
static unsigned char nvx_pending[1 << 16];
static int nvx_pend_pos, nvx_pend_len;
static char *nvx_exout;			/* ex -s messages (printf) */
static long nvx_exout_len, nvx_exout_cap;
static long nvx_term_bytes;
static void (*nvx_term_hook)(const char *buf, long n);	/* terminal stream consumer (emulator) */
static int nvx_idle;			/* vi: term_cmd() was called and no key has been read since */
static long nvx_keys_read;

static unsigned char nvx_fedlog[1 << 15];	/* everything fed to the editor on this history (for traces) */
static int nvx_fedlen;
static int nx_probe;			/* this process is a throw-away twin */

static void nvx_feed(const void *s, int n)
{
	if (n < 0)
		n = strlen(s);
	if (!nx_probe && nvx_fedlen + n <= (int) sizeof(nvx_fedlog)) {
		memcpy(nvx_fedlog + nvx_fedlen, s, n);
		nvx_fedlen += n;
	}
	if (nvx_pend_pos == nvx_pend_len)
		nvx_pend_pos = nvx_pend_len = 0;
	if (nvx_pend_len + n > (int) sizeof(nvx_pending)) {
		nv_err("pending input overflow");
		_exit(2);
	}
	memcpy(nvx_pending + nvx_pend_len, s, n);
	nvx_pend_len += n;
}

static void nx_choice(void);		/* the explorer; refills the pending buffer or never returns */

static int nvx_next_byte(void)
{
	while (nvx_pend_pos >= nvx_pend_len)
		nx_choice();
	nvx_idle = 0;
	nvx_keys_read++;
	return nvx_pending[nvx_pend_pos++];
}

static char *nvx_exall;			/* everything printed since start-up (for conformance traces) */
static long nvx_exall_len, nvx_exall_cap;

static void nvx_exout_add(const char *s, long n)
{
	if (nvx_exall_len + n + 1 > nvx_exall_cap) {
		nvx_exall_cap = (nvx_exall_len + n + 1) * 2 + 256;
		nvx_exall = realloc(nvx_exall, nvx_exall_cap);
	}
	memcpy(nvx_exall + nvx_exall_len, s, n);
	nvx_exall_len += n;
	nvx_exall[nvx_exall_len] = '\0';
	if (nvx_exout_len + n + 1 > nvx_exout_cap) {
		nvx_exout_cap = (nvx_exout_len + n + 1) * 2 + 256;
		nvx_exout = realloc(nvx_exout, nvx_exout_cap);
	}
	memcpy(nvx_exout + nvx_exout_len, s, n);
	nvx_exout_len += n;
	nvx_exout[nvx_exout_len] = '\0';
}

static void nvx_exout_reset(void)
{
	nvx_exout_len = 0;
	if (nvx_exout)
		nvx_exout[0] = '\0';
}

/* ===== the wrapped calls ============================================================================ */
int __wrap_open(const char *path, int flags, ...)
{
	struct nvx_fault *ft = nvx_fault_for(FK_OPEN);
	struct vfile *f;
	int i;
	if (ft && ft->count < 0) {
		nvx_logcall(FK_OPEN, 0, -1);
		errno = ft->err;
		return -1;
	}
	f = vfs_find(path);
	if ((!f || !f->exists) && !(flags & O_CREAT)) {
		nvx_logcall(FK_OPEN, 0, -1);
		errno = ENOENT;
		return -1;
	}
	if (!f || !f->exists) {
		f = vfs_slot(path);
		if (!f) {
			nvx_logcall(FK_OPEN, 0, -1);
			errno = ENOENT;
			return -1;
		}
		f->len = 0;
		vfs_setlen(f, 0);
		f->exists = 1;
		f->mtime = vfs_clock;
	}
	if (flags & O_TRUNC)
		vfs_setlen(f, 0);
	for (i = 0; i < 16; i++)
		if (!vfds[i].used)
			break;
	if (i == 16) {
		errno = EMFILE;
		return -1;
	}
	vfds[i].used = 1;
	vfds[i].file = f - vfs;
	vfds[i].off = 0;
	vfds[i].flags = flags;
	vfds[i].wrote = vfds[i].readc = 0;
	nvx_logcall(FK_OPEN, 0, VFS_FD0 + i);
	return VFS_FD0 + i;
}

ssize_t __wrap_read(int fd, void *buf, size_t n)
{
	if (fd == 0) {
		if (n == 0)
			return 0;
		*(unsigned char *) buf = nvx_next_byte();
		return 1;
	}
	if (fd >= VFS_FD0 && fd < VFS_FD0 + 16 && vfds[fd - VFS_FD0].used) {
		struct vfile *f = &vfs[vfds[fd - VFS_FD0].file];
		long off = vfds[fd - VFS_FD0].off;
		long k = f->len - off;
		struct nvx_fault *ft = nvx_fault_for(FK_READ);
		if (k > (long) n)
			k = n;
		if (k < 0)
			k = 0;
		if (ft && ft->count < 0) {
			nvx_logcall(FK_READ, n, -1);
			errno = ft->err;
			return -1;
		}
		if (ft && ft->count > 0 && ft->count < k)
			k = ft->count;
		memcpy(buf, f->data + off, k);
		vfds[fd - VFS_FD0].off += k;
		vfds[fd - VFS_FD0].readc++;
		nvx_logcall(FK_READ, n, k);
		return k;
	}
	return __real_read(fd, buf, n);
}

ssize_t __wrap_write(int fd, const void *buf, size_t n)
{
	if (fd == 1) {
		nvx_term_bytes += n;
		if (nvx_term_hook)
			nvx_term_hook(buf, n);
		return n;
	}
	if (fd >= VFS_FD0 && fd < VFS_FD0 + 16 && vfds[fd - VFS_FD0].used) {
		struct vfile *f = &vfs[vfds[fd - VFS_FD0].file];
		long off = vfds[fd - VFS_FD0].off;
		long k = n;
		struct nvx_fault *ft = nvx_fault_for(FK_WRITE);
		if (ft && ft->count < 0) {
			nvx_logcall(FK_WRITE, n, -1);
			errno = ft->err;
			return -1;
		}
		if (ft && ft->count > 0 && ft->count < k)
			k = ft->count;
		if (off + k > f->len)
			vfs_setlen(f, off + k);
		memcpy(f->data + off, buf, k);
		vfds[fd - VFS_FD0].off += k;
		vfds[fd - VFS_FD0].wrote++;
		f->mtime = vfs_clock;
		f->writes++;
		nvx_logcall(FK_WRITE, n, k);
		return k;
	}
	return __real_write(fd, buf, n);
}

int __wrap_close(int fd)
{
	if (fd >= VFS_FD0 && fd < VFS_FD0 + 16) {
		struct nvx_fault *ft;
		if (!vfds[fd - VFS_FD0].used) {
			errno = EBADF;
			return -1;
		}
		ft = nvx_fault_for(FK_CLOSE);
		vfds[fd - VFS_FD0].used = 0;	/* the descriptor is gone even when close reports an error */
		if (nvx_close_hook)
			nvx_close_hook(&vfs[vfds[fd - VFS_FD0].file], (vfds[fd - VFS_FD0].readc ? 1 : 0) | (vfds[fd - VFS_FD0].wrote ? 2 : 0));
		if (ft && ft->count < 0) {
			nvx_logcall(FK_CLOSE, 0, -1);
			errno = ft->err;
			return -1;
		}
		nvx_logcall(FK_CLOSE, 0, 0);
		return 0;
	}
	return __real_close(fd);
}

int __wrap_ftruncate(int fd, off_t len)
{
	if (fd >= VFS_FD0 && fd < VFS_FD0 + 16 && vfds[fd - VFS_FD0].used) {
		struct vfile *f = &vfs[vfds[fd - VFS_FD0].file];
		vfs_setlen(f, len);
		f->mtime = vfs_clock;
		vfds[fd - VFS_FD0].wrote++;
		return 0;
	}
	return __real_ftruncate(fd, len);
}

int __wrap_stat(const char *path, struct stat *st)
{
	struct vfile *f = vfs_find(path);
	if (!f || !f->exists) {
		errno = ENOENT;
		return -1;
	}
	memset(st, 0, sizeof(*st));
	st->st_mode = S_IFREG | 0600;
	st->st_size = f->len;
	st->st_mtime = f->mtime;
	return 0;
}

int __wrap_access(const char *path, int mode)
{
	struct vfile *f = vfs_find(path);
	(void) mode;
	if (!f || !f->exists) {
		errno = ENOENT;
		return -1;
	}
	return 0;
}

int __wrap_poll(struct pollfd *fds, nfds_t n, int timeout)
{
	if (n == 1 && fds[0].fd == 0) {
		fds[0].revents = POLLIN;
		return 1;
	}
	return __real_poll(fds, n, timeout);
}

int __wrap_getc(FILE *f)
{
	if (f == stdin)
		return nvx_next_byte();
	return __real_getc(f);
}

int __wrap_printf(const char *fmt, ...)
{
	char buf[1024], *big = NULL;
	va_list ap;
	int n;
	va_start(ap, fmt);
	n = vsnprintf(buf, sizeof(buf), fmt, ap);
	va_end(ap);
	if (n >= (int) sizeof(buf)) {
		big = malloc(n + 1);
		va_start(ap, fmt);
		vsnprintf(big, n + 1, fmt, ap);
		va_end(ap);
	}
	nvx_exout_add(big ? big : buf, n);
	free(big);
	return n;
}

int __wrap_ioctl(int fd, unsigned long req, ...)
{
	(void) fd; (void) req;
	errno = ENOTTY;
	return -1;
}

int __wrap_tcgetattr(int fd, struct termios *t)
{
	(void) fd;
	memset(t, 0, sizeof(*t));
	return 0;
}

int __wrap_tcsetattr(int fd, int act, const struct termios *t)
{
	(void) fd; (void) act; (void) t;
	return 0;
}

int __wrap_isatty(int fd)
{
	(void) fd;
	return 0;
}

int __wrap_kill(pid_t pid, int sig)
{
	(void) pid; (void) sig;
	return 0;
}

/* term_cmd() is called at the top of every iteration of the vi main loop: the editor is idle */
char *__real_term_cmd(int *n);
char *__wrap_term_cmd(int *n)
{
	nvx_idle = 1;
	return __real_term_cmd(n);
}

/* lbuf_edit(): count splices, so that a driver can tell whether a command modified the buffer */
struct lbuf;
void __real_lbuf_edit(struct lbuf *lb, char *s, int beg, int end);
static long nvx_splices;
static void (*nvx_edit_hook)(struct lbuf *lb, char *s, int beg, int end);
int lbuf_len(struct lbuf *lb);
void __wrap_lbuf_edit(struct lbuf *lb, char *s, int beg, int end)
{
	int n = lbuf_len(lb);
	/* the documented no-op (no text, empty range after clamping) is not a splice */
	if (s || (beg > n ? n : beg) != (end > n ? n : end))
		nvx_splices++;
	if (nvx_edit_hook)
		nvx_edit_hook(lb, s, beg, end);
	__real_lbuf_edit(lb, s, beg, end);
}

/* lbuf_rd() splices the file into the buffer with an lbuf_edit() call inside lbuf.c, which --wrap cannot see */
int __real_lbuf_rd(struct lbuf *lb, int fd, int beg, int end);
int __wrap_lbuf_rd(struct lbuf *lb, int fd, int beg, int end)
{
	int r = __real_lbuf_rd(lb, fd, beg, end);
	if (!r)
		nvx_splices++;
	return r;
}

#define NVX_WRAPS "open", "read", "write", "close", "ftruncate", "stat", "access", "poll", "getc", "printf", \
	"ioctl", "tcgetattr", "tcsetattr", "isatty", "kill", "term_cmd", "lbuf_edit"

#endif
