/* C13 (b): the vi search keys / ? n N ^A with counts and line offsets, against the whole-line reference search */
#include "nvx.h"
#include "vi.h"
#include "refsearch.h"
#include "refvi.h"

extern int xrow, xoff;
#define ESC "\x1b"

/* patterns: prefix code (reference) and what is typed */
static const struct { const char *code, *typed; } pats[] = {
	{"a", "a"}, {"Cab", "ab"}, {"Cbi", "b$"}, {"Cha", "^a"}, {"g", "\xc3\xa9"}, {"*l", "x*"},
};
#define NPAT 6

enum { S_FWD, S_BWD, S_N, S_BIGN, S_WORD, S_MOVE };
struct sop { char bytes[24]; int kind, pat, cnt, lineoff, has_off; int mkey; };
static struct sop ops[80];
static int nops;

static const char *buftexts[] = {
	"ab aab\nb a ab\n\nabab b\naaa\n",
	"\xc3\xa9" "a \xc3\xa9" "ab\nb\xc3\xa9 a\xc3\xa9\n",
};
#define NBUF 2

/* reference state */
static struct rline L[8];
static int NL;
static struct { int r, o; int pat, dir, has_off, lineoff, set; } R;
static struct rvbuf VB;
static char cfg_name[64];
static int cfg;
static char *orig_text;

static void add(int kind, int pat, int cnt, int has_off, int lineoff, int mkey, const char *fmt, ...)
{
	va_list ap;
	va_start(ap, fmt);
	vsnprintf(ops[nops].bytes, sizeof(ops[nops].bytes), fmt, ap);
	va_end(ap);
	ops[nops].kind = kind;
	ops[nops].pat = pat;
	ops[nops].cnt = cnt;
	ops[nops].has_off = has_off;
	ops[nops].lineoff = lineoff;
	ops[nops].mkey = mkey;
	nops++;
}

static void build_ops(void)
{
	int p;
	for (p = 0; p < NPAT; p++) {
		add(S_FWD, p, 0, 0, 0, 0, "/%s\n", pats[p].typed);
		add(S_BWD, p, 0, 0, 0, 0, "?%s\n", pats[p].typed);
		if (p < 3) {
			add(S_FWD, p, 2, 0, 0, 0, "2/%s\n", pats[p].typed);
			add(S_BWD, p, 2, 0, 0, 0, "2?%s\n", pats[p].typed);
			add(S_FWD, p, 3, 0, 0, 0, "3/%s\n", pats[p].typed);
		}
		if (p < 2) {
			add(S_FWD, p, 0, 1, 1, 0, "/%s/+1\n", pats[p].typed);
			add(S_BWD, p, 0, 1, -1, 0, "?%s?-1\n", pats[p].typed);
		}
	}
	add(S_N, 0, 0, 0, 0, 0, "n");
	add(S_BIGN, 0, 0, 0, 0, 0, "N");
	add(S_N, 0, 2, 0, 0, 0, "2n");
	add(S_BIGN, 0, 2, 0, 0, 0, "2N");
	add(S_N, 0, 3, 0, 0, 0, "3n");
	add(S_WORD, 0, 0, 0, 0, 0, "\x01");
	add(S_WORD, 0, 2, 0, 0, 0, "2\x01");
	add(S_MOVE, 0, 0, 0, 0, 'j', "j");
	add(S_MOVE, 0, 0, 0, 0, 'w', "w");
	add(S_MOVE, 0, 0, 0, 0, '$', "$");
	add(S_MOVE, 0, 0, 0, 0, 'G', "G");
	add(S_FWD, -1, 0, 0, 0, 0, "/\n");	/* the empty pattern reuses the previous one */
	add(S_BWD, -1, 0, 0, 0, 0, "?\n");
}

/* cnt successive searches with pattern code in direction dir from the reference position; returns 1 when all found */
static int ref_repeat(const char *code, int dir, int cnt, int *r, int *o, int *deviated)
{
	struct rr_ast a;
	int root, i, fr, fo, fl;
	memset(&a, 0, sizeof(a));
	build(&a, code, &root);
	a.root = root;
	for (i = 0; i < cnt; i++) {
		int dr, dof, dl;
		if (!rs_search(&a, L, NL, *r, *o, dir, 0, &fr, &fo, &fl))
			return 0;
		rs_search(&a, L, NL, *r, *o, dir, 1, &dr, &dof, &dl);
		if (dr != fr || dof != fo)
			*deviated = 1;
		*r = fr;
		*o = fo;
	}
	return 1;
}

static int state_bad;
static void pre_state(void)
{
	char *t;
	state_bad = 0;
	t = lbuf_cp(xb, 0, lbuf_len(xb));
	if (strcmp(t, orig_text)) {
		nx_viol("c13-text", "a search changed the text%s", "");
		state_bad = 1;
	}
	free(t);
	if (!nvx_idle && !state_bad) {
		nx_viol("c13-idle", "the editor is still inside a command after the search keys%s", "");
		state_bad = 1;
	}
	if (nx_depth > 0 && !state_bad) {
		struct sop *e = &ops[nx_hist[nx_depth - 1]];
		int r = R.r, o = R.o, found = 0, dir = R.dir, pat = R.pat, cnt = e->cnt ? e->cnt : 1, dev = 0, applies = 1;
		int has_off = R.has_off, lineoff = R.lineoff;
		char wordpat[64];
		const char *code = NULL;
		struct rvcur c;
		switch (e->kind) {
		case S_MOVE:
			c.r = R.r; c.o = R.o; c.xcol = rv_col(&VB, R.r, R.o); c.fch = 0; c.fcmd = 0;
			rv_motion(&VB, &c, e->mkey, 0, 0, 0, 23);
			R.r = c.r;
			R.o = c.o;
			applies = 0;
			if (xrow != R.r || xoff != R.o) {
				/* motions are C07's subject: follow the editor */
				R.r = xrow;
				R.o = xoff;
			}
			break;
		case S_FWD:
		case S_BWD:
			dir = e->kind == S_FWD ? 1 : -1;
			if (e->pat >= 0) {
				pat = e->pat;
				has_off = e->has_off;
				lineoff = e->lineoff;
			} else {
				/* empty pattern: the previous one; an absent offset clears the offset */
				has_off = 0;
				if (!R.set)
					applies = -1;	/* nothing to search for: fails */
			}
			break;
		case S_N:
		case S_BIGN:
			if (!R.set)
				applies = -1;
			dir = e->kind == S_N ? R.dir : -R.dir;
			break;
		case S_WORD: {
			/* the word under the cursor, searched forward as \<word\> */
			int b = R.o, en = R.o, i, q = 0;
			if (VB.len[R.r] == 0 || rv_kind(VB.cp[R.r][R.o]) != 1) {
				/* not on a word character: the editor looks at what follows; left open */
				nx_bound = nx_depth;
				return;
			}
			while (b > 0 && rv_kind(VB.cp[R.r][b - 1]) == 1)
				b--;
			while (en < VB.len[R.r] && rv_kind(VB.cp[R.r][en]) == 1)
				en++;
			wordpat[q++] = 'C';
			wordpat[q++] = 'j';
			for (i = b; i < en; i++) {
				unsigned ch = VB.cp[R.r][i];
				if (i < en - 1)
					wordpat[q++] = 'C';
				wordpat[q++] = ch == 'a' ? 'a' : ch == 'b' ? 'b' : ch == 0xe9 ? 'g' : '?';
				if (wordpat[q - 1] == '?') {
					nx_bound = nx_depth;
					return;
				}
			}
			/* C j (C x (C y ... k)) : rebuild as a right-nested concatenation ending in \> */
			{
				char tmp[64];
				int n = en - b, k2 = 0;
				tmp[k2++] = 'C'; tmp[k2++] = 'j';
				for (i = 0; i < n; i++) {
					unsigned ch = VB.cp[R.r][b + i];
					tmp[k2++] = 'C';
					tmp[k2++] = ch == 'a' ? 'a' : ch == 'b' ? 'b' : 'g';
				}
				tmp[k2++] = 'k';
				tmp[k2] = '\0';
				strcpy(wordpat, tmp);
			}
			code = wordpat;
			dir = 1;
			has_off = 0;
			pat = 100;
			break;
		}
		}
		if (applies == 1) {
			if (!code)
				code = pat == 100 ? NULL : pats[pat].code;
			if (!code) {
				/* n after ^A: the word pattern is not kept by the reference; left open */
				nx_bound = nx_depth;
				return;
			}
			found = ref_repeat(code, dir, cnt, &r, &o, &dev);
			if (found && has_off) {
				if (r + lineoff < 0 || r + lineoff >= NL)
					found = 0;
				else {
					r += lineoff;
					o = rv_firstnb(&VB, r);
				}
			}
			if (found) {
				struct rvcur cc;
				cc.r = r;
				cc.o = o;
				rv_clamp(&VB, &cc);
				r = cc.r;
				o = cc.o;
			} else {
				r = R.r;
				o = R.o;
			}
			if (xrow != r || xoff != o) {
				if (dev)
					nx_dev("c13-wordboundary-resumed", "%s from (%d,%d): lands on (%d,%d), whole-line reference (%d,%d)", nv_esc(e->bytes, -1), R.r, R.o, xrow, xoff, r, o);
				else {
					nx_viol("c13-vi-position", "%s from (%d,%d) with pattern %s dir %d count %d: cursor (%d,%d), reference (%d,%d)%s",
						nv_esc(e->bytes, -1), R.r, R.o, nv_esc(code, -1), dir, cnt, xrow, xoff, r, o, found ? "" : " (nothing found: the cursor stays)");
					state_bad = 1;
				}
				r = xrow;
				o = xoff;
			}
			/* the search is remembered even when it fails */
			R.pat = pat;
			R.dir = e->kind == S_N || e->kind == S_BIGN ? R.dir : dir;
			R.has_off = has_off;
			R.lineoff = lineoff;
			R.set = 1;
			R.r = r;
			R.o = o;
			__sync_fetch_and_add(&nx_sh->hist[found ? 0 : 1], 1);
		} else if (applies == -1) {
			if (xrow != R.r || xoff != R.o) {
				nx_viol("c13-vi-position", "%s without a previous pattern moved the cursor to (%d,%d)", nv_esc(e->bytes, -1), xrow, xoff);
				state_bad = 1;
			}
		}
	}
	if (state_bad)
		nx_bound = nx_depth;
}

static void nx_at_state(void) { }
static int nx_nops(void) { return nops; }
static const char *nx_op_name(int k) { return nv_esc(ops[k].bytes, -1); }
static int nx_op_bytes(int k, char *buf, int max)
{
	(void) max;
	strcpy(buf, ops[k].bytes);
	return strlen(buf);
}
static int nx_enabled(int k)
{
	/* the empty pattern, n and N before any search: POSIX says error, neatvi searches the empty string; left open */
	if (!R.set && ((ops[k].kind <= S_BWD && ops[k].pat < 0) || ops[k].kind == S_N || ops[k].kind == S_BIGN))
		return 0;
	return 1;
}
static unsigned long long nx_state_hash(void)
{
	unsigned long long h = nv_hash(&cfg, sizeof(cfg), 0);
	return nv_hash(&R, sizeof(R), h);
}
static int nx_leaf_bytes(char *buf, int max)
{
	(void) max;
	strcpy(buf, ESC "iX" ESC ":w! out\n:q!\n");
	return strlen(buf);
}
static void nx_at_exit(void) { }
static const char *nx_config_name(void) { return cfg_name; }
static const char *hist_name(int i) { return i == 0 ? "searches_found" : "searches_not_found"; }

static void run_config(int b, int r, int o, int depth, int ic)
{
	char *argv[] = {"vi", "-v", "f", NULL};
	char setup[64], tmp[256];
	const char *p;
	int i = 0;
	cfg = b * 2 + ic;
	vfs_n = 0;
	vfs_put("f", buftexts[b], -1);
	free(orig_text);
	orig_text = strdup(buftexts[b]);
	rv_load(&VB, buftexts[b]);
	NL = 0;
	for (p = buftexts[b]; *p; ) {
		const char *nl = strchr(p, '\n');
		snprintf(tmp, sizeof(tmp), "%.*s\n", (int) (nl - p), p);
		snprintf(L[NL].s, sizeof(L[NL].s), "%s", tmp);
		rr_subj_init(&L[NL].sj, L[NL].s, ic, 0, 0);
		NL++;
		p = nl + 1;
		i++;
	}
	memset(&R, 0, sizeof(R));
	R.r = r;
	R.o = o;
	setenv("LINES", "24", 1);
	setenv("COLUMNS", "60", 1);
	setenv("EXINIT", ic ? "" : "se noic", 1);
	snprintf(cfg_name, sizeof(cfg_name), "buf%d/start=(%d,%d)/%s", b, r, o, ic ? "ic" : "noic");
	snprintf(setup, sizeof(setup), ":%d\n%d|", r + 1, rv_col(&VB, r, o) + 1);
	nx_bound = depth;
	snprintf(nx_cfg_args, sizeof(nx_cfg_args), "cfg=%d,%d,%d ic=%d", b, r, o, ic);
	nvx_feed(setup, -1);
	nx_run(3, argv);
	nvx_pend_pos = nvx_pend_len = 0;
	nv_stat("configurations", 1);
	nv_stat("distinct_nontrivial", nx_sh->distinct);
	nx_report();
}

int main(int argc, char **argv)
{
	int b, r, o, d;
	long idx = 0;
	nv_init(argc, argv);
	d = atoi(nv_arg(argc, argv, "depth", nv_thorough ? "4" : "3"));
	nx_init(argc, argv, d, 1 << 20);
	nx_hist_name = hist_name;
	nx_pre_state = pre_state;
	nx_shard_level = -1;
	nx_trace_every = atoi(nv_arg(argc, argv, "trace", nv_thorough ? "997" : "199"));
	build_ops();
	if (nv_arg(argc, argv, "cfg", NULL)) {
		sscanf(nv_arg(argc, argv, "cfg", "0,0,0"), "%d,%d,%d", &b, &r, &o);
		nx_shard_div = 1;
		run_config(b, r, o, nx_replay_n >= 0 ? 8 : d, atoi(nv_arg(argc, argv, "ic", "0")));
		return nv_finish();
	}
	for (b = 0; b < NBUF; b++) {
		struct rvbuf tb;
		rv_load(&tb, buftexts[b]);
		for (r = 0; r < tb.n; r++)
			for (o = 0; o <= rv_last(&tb, r); o++) {
				/* every start position: depth 1 (thorough 2); the corners: the full depth */
				int corner = (r == 0 && o == 0) || (r == tb.n - 1 && o == rv_last(&tb, r)) || (r == 1 && o == 2);
				if ((idx++ % nv_nshards) == nv_shard)
					run_config(b, r, o, corner ? d : (nv_thorough ? 2 : 1), 0);
			}
		if ((idx++ % nv_nshards) == nv_shard)
			run_config(b, 0, 0, d - 1, 1);
	}
	nv_stat("max:depth", d);
	nv_stat("alphabet_size", nv_shard == 0 ? nops : 0);
	if (nv_shard == 0)
		nv_sample("config=buf0/start=(0,0)/noic history=[/ab<CR> ; n ; 2N]: cursor after each search key vs count successive whole-line reference searches (n same direction, N opposite, offsets line-wise, failure leaves the cursor)");
	return nv_finish();
}
