/* the repository's regex.c compiled unmodified, plus read-only accessors to its statics */
#include "regex.c"

int peek_re_uc_len(char *s) { return uc_len(s); }
int peek_re_uc_dec(char *s) { return uc_dec(s); }
int peek_re_prog_len(regex_t *preg) { return (*preg)->n; }
int peek_re_rnode_count_plus3(char *pat)
{
	char *p = pat;
	struct rnode *rn = rnode_parse(&p);
	int n = rnode_count(rn) + 3;
	if (rn)
		rnode_free(rn);
	return rn ? n : -1;
}
int peek_re_ngrps(void) { return NGRPS; }
int peek_re_nreps(void) { return NREPS; }
int peek_re_ndept(void) { return NDEPT; }
