/* C02: unsaved changes are never silently discarded on quit, edit or buffer switch */
#include "nvx.h"
#include "exh.h"

/* ---- alphabet ------------------------------------------------------------------------------------------ */
enum { K_MOD, K_UNDO, K_REDO, K_W, K_WPART, K_WOTHER, K_EBANG, K_SWITCH, K_EXT, K_W_MOD, K_MOD_W, K_EBANG_MOD };
static const struct { const char *name, *bytes; int kind; } ops[] = {
	{"1d", "1d\n", K_MOD},
	{"$a|x|.", "$a\nx\n.\n", K_MOD},
	{"1s/^/z/", "1s/^/z/\n", K_MOD},
	{"u", "u\n", K_UNDO},
	{"redo", "redo\n", K_REDO},
	{"w", "w\n", K_W},
	{"w!", "w!\n", K_W},
	{"1,1w", "1,1w\n", K_WPART},
	{"w g", "w g\n", K_WOTHER},
	{"w! g", "w! g\n", K_WOTHER},
	{"w d/f1", "w d/f1\n", K_WOTHER},	/* another file that happens to have the same base name */
	{"e!", "e!\n", K_EBANG},
	{"e f2", "e f2\n", K_SWITCH},
	{"e f1", "e f1\n", K_SWITCH},
	{"e #", "e #\n", K_SWITCH},
	{"b 1", "b 1\n", K_SWITCH},
	{"b 2", "b 2\n", K_SWITCH},
	{"b +", "b +\n", K_SWITCH},
	{"b -", "b -\n", K_SWITCH},
	{"external-change", "", K_EXT},
	{"b! 2", "b! 2\n", K_SWITCH},
	{"e! f2", "e! f2\n", K_SWITCH},
	{"b! 1", "b! 1\n", K_SWITCH},
	/* several commands on one line: the save point and the edit share one top-level command */
	{"w|1s/^/y/", "w|1s/^/y/\n", K_W_MOD},
	{"1s/^/y/|w", "1s/^/y/|w\n", K_MOD_W},
	{"e!|1s/^/y/", "e!|1s/^/y/\n", K_EBANG_MOD},
	{"e f3", "e f3\n", K_SWITCH},
	{"b 3", "b 3\n", K_SWITCH},
};
#define NOPS ((int) (sizeof(ops) / sizeof(ops[0])))
static int nops_used = NOPS;

/* ---- model: per path, the stack of texts after each modifying command ------------------------------------ */
#define MAXT 32
struct mbuf {
	char path[16];
	int open;
	char *texts[MAXT];
	int n, idx, saved_idx;
	char *snapshot;		/* content of the file when the editor last read or wrote it */
	int snap_partial;	/* the last write of the file by the editor was a partial-range write */
};
static struct mbuf mb[6];
static int nmb;
static char pre_path[64];
static int cfg_id;
static char cfg_name[64];

static struct mbuf *m_find(const char *path)
{
	int i;
	for (i = 0; i < nmb; i++)
		if (!strcmp(mb[i].path, path))
			return &mb[i];
	return NULL;
}

static struct mbuf *m_get(const char *path)
{
	struct mbuf *m = m_find(path);
	if (m)
		return m;
	m = &mb[nmb++];
	memset(m, 0, sizeof(*m));
	snprintf(m->path, sizeof(m->path), "%s", path);
	m->snapshot = strdup("");
	return m;
}

static int last_op_partial;
static void close_hook(struct vfile *f, int did)
{
	struct mbuf *m = m_find(f->path);
	if (!m)
		m = m_get(f->path);
	free(m->snapshot);
	m->snapshot = malloc(f->len + 1);
	memcpy(m->snapshot, f->data, f->len + 1);
	m->snap_partial = (did & 2) && last_op_partial;
}

static void op_effect(int k)
{
	snprintf(pre_path, sizeof(pre_path), "%s", exh_curpath());
	last_op_partial = ops[k].kind == K_WPART && lbuf_len(xb) != 1;
	vfs_tick(1);
	if (ops[k].kind == K_EXT) {
		struct vfile *f = vfs_find(pre_path);
		nx_trace_ok = 0;	/* an outside-world event: not reproducible by feeding keys to the stock binary */
		char buf[64];
		snprintf(buf, sizeof(buf), "ext%ld\n", vfs_clock);
		if (f)
			vfs_put(pre_path, buf, -1);
		vfs_tick(1);
	}
}

/* ---- probes ------------------------------------------------------------------------------------------------ */
static int any_dirty(int *only_partial)
{
	int i, id, row, off, d = 0, op = 1;
	long mt;
	char *p;
	struct lbuf *lb;
	for (i = 0; i < peek_ex_nbufs(); i++) {
		struct mbuf *m;
		char *t;
		if (peek_ex_buf(i, &p, &lb, &id, &row, &off, &mt))
			continue;
		m = m_find(p);
		t = exh_text(lb);
		if (m && strcmp(t, m->snapshot)) {
			d = 1;
			if (!(m->snap_partial && m->idx == m->saved_idx))
				op = 0;
		}
		free(t);
	}
	if (only_partial)
		*only_partial = d && op;
	return d;
}

static int all_at_saved(void)
{
	int i, id, row, off;
	long mt;
	char *p;
	struct lbuf *lb;
	for (i = 0; i < peek_ex_nbufs(); i++) {
		struct mbuf *m;
		if (peek_ex_buf(i, &p, &lb, &id, &row, &off, &mt))
			continue;
		m = m_find(p);
		if (!m || m->idx != m->saved_idx)
			return 0;
	}
	return 1;
}

static int buf_dirty(const char *path, int *only_partial)
{
	int s = exh_slot(path), id, row, off, d;
	long mt;
	char *p, *t;
	struct lbuf *lb;
	struct mbuf *m = m_find(path);
	if (s < 0 || !m || peek_ex_buf(s, &p, &lb, &id, &row, &off, &mt))
		return 0;
	t = exh_text(lb);
	d = strcmp(t, m->snapshot) != 0;
	free(t);
	if (only_partial)
		*only_partial = d && m->snap_partial && m->idx == m->saved_idx;
	return d;
}

/* all texts must equal the model (no command may change a buffer other than through its own history) */
static int check_texts(const char *when)
{
	int i, id, row, off, bad = 0;
	long mt;
	char *p;
	struct lbuf *lb;
	for (i = 0; i < peek_ex_nbufs(); i++) {
		struct mbuf *m;
		char *t;
		if (peek_ex_buf(i, &p, &lb, &id, &row, &off, &mt))
			continue;
		m = m_find(p);
		if (!m || !m->open)
			continue;
		t = exh_text(lb);
		if (strcmp(t, m->texts[m->idx])) {
			nx_viol("c02-text", "%s: buffer %s holds \"%s\", expected \"%s\" (position %d of its history)", when, p, nv_esc(t, -1), nv_esc(m->texts[m->idx], -1), m->idx);
			bad = 1;
		}
		free(t);
	}
	return bad;
}

static char probe_prepath[64];
static int probe_dirty, probe_partial, probe_allsaved;

/* twin 1: "b" listing, then "q", then a sentinel */
static void probe_quit(void)
{
	char *out = nvx_exout ? nvx_exout : "";
	int alive = !nx_exited && strstr(out, "SENTINEL") != NULL;
	char *ln;
	int i, id, row, off;
	long mt;
	char *p;
	struct lbuf *lb;
	/* (2) the listing never shows a differing buffer as clean: lines look like " 1 % f1 *" */
	for (ln = out; ln && *ln; ln = strchr(ln, '\n') ? strchr(ln, '\n') + 1 : NULL) {
		char path[32];
		int bid;
		char alias, flag = ' ';
		if (sscanf(ln, "%d %c %31s %c", &bid, &alias, path, &flag) >= 3 || sscanf(ln, "%d %31s %c", &bid, path, &flag) >= 2) {
			int op;
			if (m_find(path) && exh_slot(path) >= 0 && !nx_exited && buf_dirty(path, &op) && flag != '*') {
				if (op)
					nx_dev("c02-partial-write-own-path", "buffer list shows %s as unmodified although its text differs from the file as last written (partial-range write to its own path)", path);
				else
					nx_viol("c02-flag", "buffer list shows %s as unmodified although its text differs from the file as last read/written", path);
			}
		}
	}
	if (probe_dirty) {
		/* (1) quit must be refused, nothing discarded, and the current buffer is then a dirty one */
		if (!alive) {
			if (probe_partial)
				nx_dev("c02-partial-write-own-path", "q exits although a buffer differs from its file as last written (clean buffer, then partial-range write to its own path)%s", "");
			else
				nx_viol("c02-quit", "q was accepted although a buffer differs from its file (output \"%s\")", nv_esc(out, -1));
			return;
		}
		if (check_texts("after the refused q"))
			return;
		/* the editor may also count a buffer as modified when it is merely off its saved history position */
		{
			struct mbuf *cm = m_find(exh_curpath());
			if (!buf_dirty(exh_curpath(), NULL) && !probe_partial && cm && cm->idx == cm->saved_idx)
				nx_viol("c02-quit-switch", "after the refused q the current buffer is %s, which is not a modified one", exh_curpath());
		}
	} else if (probe_allsaved) {
		/* (3) every buffer is at its saved history position: quit must be allowed again */
		if (alive)
			nx_viol("c02-allowed", "q is refused (\"%s\") although every buffer is at the position of its last successful whole write or read", nv_esc(out, -1));
	}
	for (i = 0; i < 0 && !peek_ex_buf(i, &p, &lb, &id, &row, &off, &mt); i++)
		;
}

/* twins 2 and 3: "e f3" / "b N" without '!' from the current buffer */
static void probe_leave(void)
{
	char *out = nvx_exout ? nvx_exout : "";
	int moved = strcmp(exh_curpath(), probe_prepath) != 0;
	if (nx_exited)
		return;
	if (probe_dirty) {
		if (moved) {
			if (probe_partial)
				nx_dev("c02-partial-write-own-path", "the command left buffer %s although it differs from its file as last written (partial-range write to its own path)", probe_prepath);
			else
				nx_viol("c02-leave", "the command left buffer %s although it differs from its file (now in %s)", probe_prepath, exh_curpath());
			return;
		}
		if (!strstr(out, "buffer modified"))
			nx_viol("c02-leave-msg", "leaving the modified buffer %s was refused without the 'buffer modified' message (\"%s\")", probe_prepath, nv_esc(out, -1));
		check_texts("after the refused switch");
	} else if (probe_allsaved && !moved && strstr(out, "buffer modified")) {
		nx_viol("c02-allowed", "leaving buffer %s is refused although it is at the position of its last successful whole write or read", probe_prepath);
	}
}

/* ---- oracle at every state --------------------------------------------------------------------------------- */
static int texts_bad;
static void pre_state(void)
{
	const char *cur = exh_curpath();
	struct mbuf *m;
	char *t;
	int k = nx_depth ? nx_hist[nx_depth - 1] : -1;
	int kind = k >= 0 ? ops[k].kind : -1;
	char *out = nvx_exout ? nvx_exout : "";
	/* bring the model up to date with the operation just executed */
	m = m_get(cur);
	t = exh_text(xb);
	if (!m->open) {				/* a buffer that was just created by :e */
		m->open = 1;
		m->texts[0] = strdup(t);
		m->n = 1;
		m->idx = m->saved_idx = 0;
	} else if (kind == K_W_MOD || kind == K_EBANG_MOD) {
		/* first the save point (whole write, or reload) at the current position, then the modification */
		struct vfile *vf = vfs_find(cur);
		if (kind == K_EBANG_MOD && vf && vf->exists && m->idx + 1 < MAXT) {
			m->idx++;
			m->texts[m->idx] = strdup(m->snapshot);	/* the reloaded file content */
			m->n = m->idx + 1;
			m->saved_idx = m->idx;
		} else if (kind == K_W_MOD && !strstr(out, "failed") && strstr(out, "[w]")) {
			m->saved_idx = m->idx;
		}
		if (strcmp(t, m->texts[m->idx]) && m->idx + 1 < MAXT) {
			if (m->saved_idx > m->idx)
				m->saved_idx = -1;
			m->idx++;
			m->texts[m->idx] = strdup(t);
			m->n = m->idx + 1;
		}
	} else if (kind == K_MOD_W) {
		if (nvx_splices > 0 && m->idx + 1 < MAXT) {
			if (m->saved_idx > m->idx)
				m->saved_idx = -1;
			m->idx++;
			m->texts[m->idx] = strdup(t);
			m->n = m->idx + 1;
		}
		if (!strstr(out, "failed") && strstr(out, "[w]"))
			m->saved_idx = m->idx;
	} else if (kind == K_MOD || kind == K_EBANG) {
		struct mbuf *pm = m_find(pre_path);
		if (nvx_splices > 0 && pm && pm == m && m->idx + 1 < MAXT) {
			if (m->saved_idx > m->idx)	/* the saved position was in the redo branch that is now discarded */
				m->saved_idx = -1;
			m->idx++;
			m->texts[m->idx] = strdup(t);
			m->n = m->idx + 1;
			if (m->saved_idx >= m->n)
				m->saved_idx = -1;
			if (m->saved_idx > m->idx)
				m->saved_idx = -1;
		}
		if (kind == K_EBANG)
			m->saved_idx = m->idx;
	} else if (kind == K_UNDO) {
		if (m->idx > 0)
			m->idx--;
	} else if (kind == K_REDO) {
		if (m->idx + 1 < m->n)
			m->idx++;
	} else if (kind == K_W || (kind == K_WPART && lbuf_len(xb) == 1)) {
		/* a range that covers the whole buffer is a whole write */
		if (!strstr(out, "failed") && strstr(out, "[w]"))
			m->saved_idx = m->idx;
	}
	free(t);
	/* a modification discards the redo branch; the saved position may have been in it */
	if ((kind == K_MOD || kind == K_EBANG) && m->saved_idx >= m->n)
		m->saved_idx = -1;
	texts_bad = check_texts(k >= 0 ? ops[k].name : "start");
}

static void nx_at_state(void)
{
	const char *cur = exh_curpath();
	struct mbuf *m = m_get(cur);
	int i, id, row, off, other = -1;
	long mt;
	char *p;
	struct lbuf *lb;
	if (texts_bad)
		return;
	/* probes */
	probe_dirty = any_dirty(&probe_partial);
	probe_allsaved = all_at_saved();
	__sync_fetch_and_add(&nx_sh->hist[probe_dirty ? 0 : 1], 1);
	NX_TWIN("b\nq\nec SENTINEL\n", -1, probe_quit);
	snprintf(probe_prepath, sizeof(probe_prepath), "%s", cur);
	probe_dirty = buf_dirty(cur, &probe_partial);
	probe_allsaved = m->idx == m->saved_idx;
	NX_TWIN(strcmp(cur, "f3") ? "e f3\n" : "e f1\n", -1, probe_leave);
	for (i = 1; i < peek_ex_nbufs(); i++)
		if (!peek_ex_buf(i, &p, &lb, &id, &row, &off, &mt)) {
			other = id;
			break;
		}
	if (other >= 0) {
		char cmd[32];
		snprintf(cmd, sizeof(cmd), "b %d\n", other);
		NX_TWIN(cmd, -1, probe_leave);
	}
}

static int nx_nops(void) { return nops_used; }
static const char *nx_op_name(int k) { return ops[k].name; }
static int nx_op_bytes(int k, char *buf, int max)
{
	(void) max;
	strcpy(buf, ops[k].bytes);
	return strlen(buf);
}
static int nx_enabled(int k)
{
	(void) k;
	return 1;
}
static unsigned long long nx_state_hash(void)
{
	unsigned long long h = nv_hash(&cfg_id, sizeof(cfg_id), 0);
	int i, id, row, off;
	long mt;
	char *p;
	struct lbuf *lb;
	char cb[16384];
	for (i = 0; i < peek_ex_nbufs(); i++) {
		struct mbuf *m;
		struct vfile *f;
		int l, newer;
		if (peek_ex_buf(i, &p, &lb, &id, &row, &off, &mt)) {
			h = nv_hash("-", 1, h);
			continue;
		}
		m = m_find(p);
		f = vfs_find(p);
		h = nv_hash(p, strlen(p), h);
		h = nv_hash(&id, sizeof(id), h);
		l = peek_lbuf_canon(lb, cb, sizeof(cb));
		h = nv_hash(cb, l, h);
		{
			char *t = exh_text(lb);
			h = nv_hash(t, strlen(t), h);
			free(t);
		}
		newer = f && f->exists ? (f->mtime > mt) + 2 * (mt <= 0) : 7;
		h = nv_hash(&newer, sizeof(newer), h);
		if (m) {
			h = nv_hash(&m->idx, sizeof(int), h);
			h = nv_hash(&m->saved_idx, sizeof(int), h);
			h = nv_hash(&m->n, sizeof(int), h);
			h = nv_hash(m->snapshot, strlen(m->snapshot), h);
			h = nv_hash(&m->snap_partial, sizeof(int), h);
		}
	}
	for (i = 0; i < vfs_n; i++) {
		h = nv_hash(vfs[i].path, strlen(vfs[i].path), h);
		h = nv_hash(&vfs[i].exists, sizeof(int), h);
		if (vfs[i].exists)
			h = nv_hash(vfs[i].data, vfs[i].len, h);
	}
	return h;
}
static int nx_leaf_bytes(char *buf, int max)
{
	(void) max;
	strcpy(buf, "w! out\nb\nq!\n");
	return strlen(buf);
}
static void nx_at_exit(void)
{
	if (!nx_in_leaf) {
		/* an operation of the alphabet made the editor quit: none of them should */
		nx_viol("c02-exit", "the editor exited on an operation that is not a quit%s", "");
	}
}
static const char *nx_config_name(void) { return cfg_name; }
static const char *hist_name(int i) { return i == 0 ? "states_with_a_modified_buffer" : "states_all_clean"; }

static void run_config(int id, int depth)
{
	char *argv[] = {"vi", "-s", "-e", "f1", NULL};
	cfg_id = id;
	vfs_n = 0;
	nmb = 0;
	vfs_clock = 1000;
	if (id == 0) {
		vfs_put("f1", "a\nb\nc\n", -1);
		vfs_put("f2", "p\nq\n", -1);
		vfs_put("f3", "k\n", -1);
		snprintf(cfg_name, sizeof(cfg_name), "3files");
	} else {
		vfs_put("f1", "a\n", -1);
		vfs_put("f2", "", -1);
		snprintf(cfg_name, sizeof(cfg_name), "1line+empty+new");
	}
	nx_bound = depth;
	snprintf(nx_cfg_args, sizeof(nx_cfg_args), "cfg=%d", id);
	nx_run(4, argv);
	nv_stat("configurations", 1);
	nv_stat("distinct_nontrivial", nx_sh->distinct);
	nx_report();
}

/* ---- 16 buffers: quit with the modified buffer in every slot ------------------------------------------------ */
static int slot_k, slot_j, slot_phase;
static void probe16(void)
{
	char *out = nvx_exout ? nvx_exout : "";
	char want[16];
	snprintf(want, sizeof(want), "g%d", slot_k);
	if (nx_exited || !strstr(out, "SENTINEL")) {
		nv_viol("c02-quit16", "kind=slots 16 buffers open, g%d modified, current g%d: q exited and discarded the change", slot_k, slot_j);
		return;
	}
	if (strcmp(exh_curpath(), want))
		nv_viol("c02-quit16", "kind=slots 16 buffers open, g%d modified, current g%d: after the refused q the current buffer is %s", slot_k, slot_j, exh_curpath());
	nv_stat("slot_cases", 1);
}

static void run_slots(void)
{
	int k, i;
	/* the modified buffer g1 is pushed down to slot k of the buffer table by visiting k other buffers */
	for (k = 1; k <= 15; k++) {
		pid_t pid;
		int st;
		if ((k % nv_nshards) != nv_shard)
			continue;
		fflush(nv_out);
		pid = fork();
		if (!pid) {
			char *argv[] = {"vi", "-s", "-e", "g1", NULL};
			char in[2048] = "", name[16];
			vfs_n = 0;
			for (i = 1; i <= 16; i++) {
				snprintf(name, sizeof(name), "g%d", i);
				vfs_put(name, "x\ny\n", -1);
				if (i > 1)
					snprintf(in + strlen(in), sizeof(in) - strlen(in), "e g%d\n", i);
			}
			snprintf(in + strlen(in), sizeof(in) - strlen(in), "b 1\n1d\n");
			/* leaving a modified buffer needs the forced form: e! <path of an open buffer> switches to it */
			for (i = 2; i <= k + 1; i++)
				snprintf(in + strlen(in), sizeof(in) - strlen(in), "e! g%d\n", i);
			snprintf(in + strlen(in), sizeof(in) - strlen(in), "q\nec SENTINEL\n");
			slot_k = 1;
			slot_j = k + 1;
			nvx_feed(in, -1);
			nx_probe = 1;
			nx_probe_fn = probe16;
			signal(SIGALRM, nx_alarm);
			alarm(nx_horizon);
			nv_main(4, argv);
			nx_exited = 1;
			probe16();
			fflush(nv_out);
			_exit(0);
		}
		while (waitpid(pid, &st, 0) < 0)
			;
		if (WIFSIGNALED(st))
			nv_viol("c02-quit16", "kind=slots 16 buffers, modified g1 in slot %d: the editor died with signal %d", k, WTERMSIG(st));
		nv_stat("transitions", 20 + k);
		nv_stat("states", 1);
	}
	(void) slot_phase;
}

int main(int argc, char **argv)
{
	int depth;
	nv_init(argc, argv);
	depth = atoi(nv_arg(argc, argv, "depth", nv_thorough ? "5" : "4"));
	nx_init(argc, argv, depth, 1 << 22);
	nx_hist_name = hist_name;
	nx_op_effect = op_effect;
	nx_pre_state = pre_state;
	nvx_close_hook = close_hook;
	nx_trace_every = atoi(nv_arg(argc, argv, "trace", nv_thorough ? "4999" : "701"));
	nx_trace_stdout = 1;
	setenv("EXINIT", "", 1);
	if (nv_arg(argc, argv, "cfg", NULL)) {
		run_config(atoi(nv_arg(argc, argv, "cfg", "0")), depth);
		return nv_finish();
	}
	run_config(0, depth);
	run_config(1, depth);
	nops_used = NOPS;
	run_slots();
	nv_stat("max:depth", depth);
	if (nv_shard == 0)
		nv_sample("config=3files history=[1d ; w g ; u ; 1,1w]: in every state all buffer texts vs per-buffer text stacks; twins: 'b','q','ec SENTINEL' / 'e f3' / 'b N' checked against text-vs-file-snapshot dirtiness");
	return nv_finish();
}
