/* helpers shared by the ex-mode exploration harnesses */
#ifndef EXH_H
#define EXH_H
#include "vi.h"

int peek_ex_nbufs(void);
int peek_ex_buf(int i, char **path, struct lbuf **lb, int *id, int *row, int *off, long *mt);
int peek_lbuf_canon(struct lbuf *lb, char *buf, int max);

/* the text of a line buffer as one malloc'd string */
static char *exh_text(struct lbuf *lb)
{
	return lbuf_cp(lb, 0, lbuf_len(lb));
}

/* slot of the open buffer with the given path, or -1 */
static int exh_slot(const char *path)
{
	int i, id, row, off;
	long mt;
	char *p;
	struct lbuf *lb;
	for (i = 0; i < peek_ex_nbufs(); i++)
		if (!peek_ex_buf(i, &p, &lb, &id, &row, &off, &mt) && !strcmp(p, path))
			return i;
	return -1;
}

static const char *exh_curpath(void)
{
	return ex_path() ? ex_path() : "";
}
#endif
