/* C01: write-out equals buffer text; read-then-write reproduces the file byte for byte */
#include "nvenv.h"
#include "vi.h"

static int in_editor;
static void nx_choice(void)
{
	if (in_editor) {
		nv_viol("c01-noquit", "kind=editor the editor asked for more input after :q!");
		fflush(nv_out);
		_exit(0);
	}
	nv_err("unexpected read from standard input");
	_exit(2);
}

/* ---- the case: a file as a list of line lengths, a fill rule and a final-newline flag ------------ */
#define MAXLINES 2100
static int nlines;
static int linelen[MAXLINES];
static int final_nl;
static int fill_byte;		/* 0: pattern of printable bytes; else that byte value at fill_off of line 0 */
static int fill_off;
static char *content;		/* the file */
static long content_len;
static char casedesc[256];

static char fillchar(int line, int off)
{
	if (fill_byte && line == 0 && off == fill_off)
		return fill_byte;
	return "abcdefghijklmnopqrstuvwxyz0123456789 \t-_"[(line * 7 + off) % 40];
}

static void build_content(void)
{
	long tot = 0, o = 0;
	int i, j;
	for (i = 0; i < nlines; i++)
		tot += linelen[i] + 1;
	content = realloc(content, tot + 1);
	for (i = 0; i < nlines; i++) {
		for (j = 0; j < linelen[i]; j++)
			content[o++] = fillchar(i, j);
		if (i < nlines - 1 || final_nl)
			content[o++] = '\n';
	}
	content[o] = '\0';
	content_len = o;
}

/* expected lines after reading: split on newline; a last line without newline gets one */
static int exp_nlines(void)
{
	if (nlines == 0)
		return 0;
	if (!final_nl && linelen[nlines - 1] == 0)
		return nlines - 1;	/* the file ends right after a newline (or is empty) */
	return nlines;
}

static long n_runs, n_dev_runs;

/* one read of the file under the current fault plan; returns the buffer or NULL on violation */
static struct lbuf *do_read(void)
{
	struct lbuf *lb = lbuf_make();
	int fd, rd, i, en = exp_nlines();
	vfs_put("in", content, content_len);
	nvx_plan_arm();
	fd = open("in", O_RDONLY);
	rd = lbuf_rd(lb, fd, 0, 0);
	close(fd);
	nvx_logging = 0;
	n_runs++;
	if (rd != 0) {
		nv_viol("c01-read", "kind=file %s: lbuf_rd reported failure (%d) although every read succeeded", casedesc, rd);
		lbuf_free(lb);
		return NULL;
	}
	if (lbuf_len(lb) != en) {
		nv_viol("c01-read", "kind=file %s: %d lines after reading, expected %d", casedesc, lbuf_len(lb), en);
		lbuf_free(lb);
		return NULL;
	}
	for (i = 0; i < en; i++) {
		char *ln = lbuf_get(lb, i);
		int l = linelen[i], j, bad = (int) strlen(ln) != l + 1 || ln[l] != '\n';
		for (j = 0; !bad && j < l; j++)
			bad = ln[j] != fillchar(i, j);
		if (bad) {
			nv_viol("c01-read", "kind=file %s: line %d differs from the file (length %d, expected %d + newline)", casedesc, i + 1, (int) strlen(ln), l);
			lbuf_free(lb);
			return NULL;
		}
	}
	return lb;
}

/* one write of lines [beg,end) onto a target with previous content of prev_len bytes (-1: absent) */
static int do_write(struct lbuf *lb, int beg, int end, long prev_len)
{
	static char *prev;
	static long prev_cap;
	struct vfile *f;
	long elen = 0, o = 0;
	int fd, r, i, j;
	if (prev_len >= 0) {
		if (prev_len + 1 > prev_cap) {
			prev_cap = prev_len * 2 + 64;
			prev = realloc(prev, prev_cap);
		}
		memset(prev, '#', prev_len);
		vfs_put("out", prev, prev_len);
	} else {
		vfs_remove("out");
	}
	nvx_plan_arm();
	fd = open("out", O_WRONLY | O_CREAT, 0600);
	r = lbuf_wr(lb, fd, beg, end);
	close(fd);
	nvx_logging = 0;
	n_runs++;
	if (r != 0) {
		nv_viol("c01-write", "kind=file %s range=%d,%d prev=%ld: lbuf_wr reported failure although no write failed", casedesc, beg + 1, end, prev_len);
		return 1;
	}
	for (i = beg; i < end; i++)
		elen += linelen[i] + 1;
	f = vfs_find("out");
	if (!f || !f->exists || f->len != elen) {
		nv_viol("c01-write-length", "kind=file %s range=%d,%d prev=%ld: file length %ld after writing, expected %ld (concatenation of the lines)",
			casedesc, beg + 1, end, prev_len, f ? f->len : -1, elen);
		return 1;
	}
	for (i = beg; i < end; i++) {
		for (j = 0; j < linelen[i]; j++)
			if (f->data[o++] != fillchar(i, j))
				goto bad;
		if (f->data[o++] != '\n')
			goto bad;
	}
	return 0;
bad:
	nv_viol("c01-write-bytes", "kind=file %s range=%d,%d prev=%ld: byte %ld of the written file differs from the concatenation of the lines",
		casedesc, beg + 1, end, prev_len, o - 1);
	return 1;
}

/* enumerate all placements of <= k short-count deviations over the calls of `kind` of one operation */
static int dev_k;
static struct lbuf *cur_lb;
static int cur_beg, cur_end;
static long cur_prev;

static int run_op(int is_read)
{
	if (is_read) {
		struct lbuf *lb = do_read();
		if (!lb)
			return 1;
		lbuf_free(lb);
		return 0;
	}
	return do_write(cur_lb, cur_beg, cur_end, cur_prev);
}

static int explore_devs(int is_read, int depth, int from)
{
	int kind = is_read ? FK_READ : FK_WRITE;
	int i, v, n, nth = 0;
	struct { long ret; } calls[NVX_LOGMAX];
	int ncalls = 0;
	if (run_op(is_read))
		return 1;
	if (depth)
		n_dev_runs++;
	if (depth == dev_k)
		return 0;
	/* the calls of this run, in order */
	n = nvx_nlog;
	for (i = 0; i < n; i++)
		if (nvx_log[i].kind == kind)
			calls[ncalls++].ret = nvx_log[i].ret;
	for (nth = from; nth < ncalls; nth++) {
		long full = calls[nth].ret;
		long variants[3];
		int nv = 0;
		if (full <= 1)
			continue;
		variants[nv++] = 1;
		if (full / 2 > 1)
			variants[nv++] = full / 2;
		if (full - 1 > 1 && full - 1 != full / 2)
			variants[nv++] = full - 1;
		for (v = 0; v < nv; v++) {
			nvx_plan[depth].kind = kind;
			nvx_plan[depth].nth = nth;
			nvx_plan[depth].count = variants[v];
			nvx_nplan = depth + 1;
			if (explore_devs(is_read, depth + 1, nth + 1)) {
				nvx_nplan = depth;
				return 1;
			}
			nvx_nplan = depth;
		}
	}
	return 0;
}

static const long prevs_rel[] = {-1, -2, 0, 1, 5000};	/* absent, shorter (half), equal, longer by 1, longer by > 4096 */

static void one_file(int all_ranges)
{
	struct lbuf *lb;
	int en, b, e, p;
	build_content();

	nvx_nplan = 0;
	/* reading, with all placements of short reads */
	if (explore_devs(1, 0, 0))
		return;
	nvx_nplan = 0;
	lb = do_read();
	if (!lb)
		return;
	en = exp_nlines();
	for (b = 0; b <= en; b++)
		for (e = b; e <= en; e++) {
			long elen = 0;
			int i;
			if (!all_ranges && !((b == 0 && e == en) || (b == 0 && e == 1) || (b == en - 1 && e == en) ||
					(b == en / 2 && e == en / 2 + 1) || (b == 1 && e == en - 1)))
				continue;
			if (e < b || (b == e && b > 0 && !all_ranges))
				continue;
			for (i = b; i < e; i++)
				elen += linelen[i] + 1;
			for (p = 0; p < 5; p++) {
				long prev = prevs_rel[p] == -1 ? -1 : prevs_rel[p] == -2 ? elen / 2 : elen + prevs_rel[p];
				if (prevs_rel[p] == -2 && elen < 2)
					continue;
				cur_lb = lb;
				cur_beg = b;
				cur_end = e;
				cur_prev = prev;
				nvx_nplan = 0;
				/* deviations only against one previous-content class per range, the rest fault-free */
				if (p == 4 ? explore_devs(0, 0, 0) : do_write(lb, b, e, prev)) {
					lbuf_free(lb);
					return;
				}
			}
		}
	lbuf_free(lb);
}

/* ---- (v) the same through the real main(): :e, :w, :a,bw, %p ---------------------------------------- */
int nv_main(int argc, char **argv);
static void editor_case(void)
{
	pid_t pid;
	int st;
	build_content();
	fflush(nv_out);
	pid = fork();
	if (!pid) {
		char *argv[] = {"vi", "-s", "-e", "in", NULL};
		struct vfile *f;
		int en = exp_nlines(), i, j;
		long o = 0, elen = 0;
		char script[256];
		vfs_put("in", content, content_len);
		/* the forced write goes over a file that held more data; out3 does not exist before */
		vfs_put("out", "previous content of the target\n", -1);
		snprintf(script, sizeof(script), ":w! out\n:w out3\n:%d,%dw! out2\n:%%p\n:q!\n", en > 1 ? 2 : 1, en > 0 ? en : 1);
		nvx_feed(script, -1);
		in_editor = 1;
		alarm(20);
		nv_main(4, argv);
		alarm(0);
		/* out must hold exactly the lines */
		f = vfs_find("out");
		for (i = 0; i < en; i++)
			elen += linelen[i] + 1;
		if (!f || !f->exists || f->len != elen) {
			nv_viol("c01-editor-write", "kind=editor %s: :w wrote %ld bytes, expected %ld", casedesc, f && f->exists ? f->len : -1, elen);
		} else {
			for (i = 0; i < en; i++) {
				for (j = 0; j < linelen[i]; j++)
					if (f->data[o++] != fillchar(i, j))
						break;
				if (j < linelen[i] || f->data[o++] != '\n') {
					nv_viol("c01-editor-write", "kind=editor %s: :w output differs at byte %ld", casedesc, o);
					break;
				}
			}
		}
		/* a new path gets the same bytes (an empty buffer still creates an empty file) */
		{
			struct vfile *f3 = vfs_find("out3");
			f = vfs_find("out");
			if (!f3 || !f3->exists || f3->len != elen || (f && f->exists && f->len == elen && memcmp(f3->data, f->data, elen)))
				nv_viol("c01-editor-write", "kind=editor %s: :w to a new path wrote %ld bytes, expected %ld", casedesc, f3 && f3->exists ? f3->len : -1, elen);
		}
		/* out2 = lines 2..$ (or 1..1) */
		if (en > 0) {
			int b = en > 1 ? 1 : 0;
			long e2 = 0;
			f = vfs_find("out2");
			for (i = b; i < en; i++)
				e2 += linelen[i] + 1;
			if (!f || !f->exists || f->len != e2)
				nv_viol("c01-editor-write", "kind=editor %s: :%d,%dw wrote %ld bytes, expected %ld", casedesc, b + 1, en, f && f->exists ? f->len : -1, e2);
		}
		/* %p output: the read message followed by the lines; compare the tail */
		if (en > 0 && nvx_exout_len >= elen) {
			const char *tail = nvx_exout + nvx_exout_len - elen;
			f = vfs_find("out");
			/* %p is printed after the two write messages; the lines are the last elen bytes */
			if (f && f->exists && f->len == elen && memcmp(tail, f->data, elen))
				nv_viol("c01-editor-print", "kind=editor %s: %%p output differs from the buffer lines", casedesc);
		} else if (en > 0) {
			nv_viol("c01-editor-print", "kind=editor %s: %%p printed %ld bytes, fewer than the %ld bytes of the lines", casedesc, nvx_exout_len, elen);
		}
		fflush(nv_out);
		_exit(0);
	}
	while (waitpid(pid, &st, 0) < 0)
		;
	if (WIFSIGNALED(st))
		nv_viol("c01-editor-crash", "kind=editor %s: the editor died with signal %d", casedesc, WTERMSIG(st));
	nv_stat("editor_runs", 1);
	n_runs++;
}

/* ---- case table ------------------------------------------------------------------------------------ */
struct fcase { int nl, l0, l1, l2, manyshort, fn, fbyte, foff, k, all, editor; };
static struct fcase *cases;
static long ncases, capcases;
static long gidx;

static void add_case(int nl, int l0, int l1, int l2, int manyshort, int fn, int fbyte, int foff, int k, int all, int editor)
{
	struct fcase c = {nl, l0, l1, l2, manyshort, fn, fbyte, foff, k, all, editor};
	if ((gidx++ % nv_nshards) != nv_shard)
		return;
	if (ncases == capcases) {
		capcases = capcases ? capcases * 2 : 4096;
		cases = realloc(cases, capcases * sizeof(cases[0]));
	}
	cases[ncases++] = c;
}

static void load_case(long i)
{
	struct fcase *c = &cases[i];
	int j;
	nlines = c->nl;
	if (c->manyshort) {
		for (j = 0; j < nlines; j++)
			linelen[j] = (j * 5) % 7;
		snprintf(casedesc, sizeof(casedesc), "lines=%d short lines final_newline=%d", nlines, c->fn);
	} else {
		linelen[0] = c->l0;
		linelen[1] = c->l1;
		linelen[2] = c->l2;
		if (nlines == 1)
			snprintf(casedesc, sizeof(casedesc), "lines=[%d] final_newline=%d", c->l0, c->fn);
		else if (nlines == 2)
			snprintf(casedesc, sizeof(casedesc), "lines=[%d,%d] final_newline=%d", c->l0, c->l1, c->fn);
		else
			snprintf(casedesc, sizeof(casedesc), "lines=[%d,%d,%d] final_newline=%d", c->l0, c->l1, c->l2, c->fn);
	}
	final_nl = c->fn;
	fill_byte = c->fbyte;
	fill_off = c->foff;
	if (fill_byte)
		snprintf(casedesc + strlen(casedesc), sizeof(casedesc) - strlen(casedesc), " byte 0x%02x at offset %d", fill_byte, fill_off);
	dev_k = c->k;
}

static void run_case(long i)
{
	load_case(i);
	nv_guard(120, "c01-hang", "%s", casedesc);
	if (i < 1 && nv_shard == 0)
		nv_sample("file %s: read with all placements of <=%d short reads, then written (all ranges x 5 previous target sizes, all placements of <=%d short writes)", casedesc, dev_k, dev_k);
	n_runs = n_dev_runs = 0;
	if (cases[i].editor) {
		editor_case();
		nv_stat("editor_files", 1);
	} else {
		one_file(cases[i].all);
		nv_stat("files", 1);
	}
	nv_stat("states", 1);
	nv_stat("distinct_nontrivial", 1);
	nv_stat("transitions", n_runs);
	nv_stat("evaluations", n_runs);
	nv_stat("runs_with_deviations", n_dev_runs);
}

static void desc_case(long i, char *buf, int len)
{
	load_case(i);
	snprintf(buf, len, "%s%s", cases[i].editor ? "(through main) " : "", casedesc);
}

int main(int argc, char **argv)
{
	static const int L[] = {0, 1, 2, 127, 128, 129, 1022, 1023, 1024, 1025, 1026, 2047, 2048, 2049,
		4093, 4094, 4095, 4096, 4097, 4098, 8191, 8192, 8193};
	static const int N[] = {0, 1, 2, 3, 510, 511, 512, 513, 514, 1022, 1023, 1024, 1025, 1026, 2047, 2048, 2049};
	static const int offs[] = {0, 1023, 1024, 4095, 4096};
	int nL = sizeof(L) / sizeof(L[0]);
	int i, j, k, fn, K;
	char errpath[512];
	nv_init(argc, argv);
	K = atoi(nv_arg(argc, argv, "k", nv_thorough ? "2" : "1"));
	/* (i) single-line files of every length */
	for (i = 0; i <= 4300 + 5; i++)
		for (fn = 0; fn < 2; fn++)
			add_case(1, i <= 4300 ? i : 8190 + (i - 4301), 0, 0, 0, fn, 0, 0, K, 1, 0);
	/* (i') quick tier: two deviations (e.g. a short write whose retry is short again) at every size class */
	if (K < 2)
		for (i = 0; i < nL; i++)
			for (fn = 0; fn < 2; fn++) {
				add_case(1, L[i], 0, 0, 0, fn, 0, 0, 2, 1, 0);
				add_case(2, L[i], 5000, 0, 0, fn, 0, 0, 2, 1, 0);
			}
	/* (ii) files of two (thorough: three) lines with lengths around every size class */
	for (i = 0; i < nL; i++)
		for (j = 0; j < nL; j++)
			for (fn = 0; fn < 2; fn++)
				add_case(2, L[i], L[j], 0, 0, fn, 0, 0, K > 1 && L[i] + L[j] > 6000 ? 1 : K, 1, 0);
	if (nv_thorough)
		for (i = 0; i < nL; i++)
			for (j = 0; j < nL; j++)
				for (k = 0; k < nL; k++)
					add_case(3, L[i], L[j], L[k], 0, (i + j + k) & 1, 0, 0, 1, 1, 0);
	/* (iii) line counts around the line-table sizes */
	for (i = 0; i < (int) (sizeof(N) / sizeof(N[0])); i++)
		for (fn = 0; fn < 2; fn++)
			add_case(N[i], 0, 0, 0, 1, fn, 0, 0, 1, N[i] <= 6, 0);
	/* (iv) every byte value at the chunk boundaries */
	for (i = 1; i < 256; i++)
		for (j = 0; j < 5; j++)
			if (i != '\n')
				add_case(2, offs[j] + 3, 2, 0, 0, 1, i, offs[j], 0, 1, 0);
	/* (v) through the real main(): :e, :w, :a,bw, %p */
	for (i = 0; i < nL; i++)
		for (j = 0; j < nL; j += 3)
			for (fn = 0; fn < 2; fn++)
				add_case(2, L[i], L[j], 0, 0, fn, 0, 0, 0, 0, 1);
	for (i = 0; i < (int) (sizeof(N) / sizeof(N[0])); i++)
		add_case(N[i], 0, 0, 0, 1, i & 1, 0, 0, 0, 0, 1);
	snprintf(errpath, sizeof(errpath), "%s.err", nv_arg(argc, argv, "out", "c01"));
	nv_forkloop(ncases, run_case, desc_case, "c01-memory", errpath);
	nv_stat("max:deviation_bound", K);
	nv_stat("max:single_line_len", 8194);
	return nv_finish();
}
