/* the repository's rstr.c compiled unmodified, plus a read-only accessor to the classifier result */
#include "rstr.c"

int peek_rstr_is_simple(struct rstr *rs) { return rs->str != NULL; }
