/*
 * ref_vi: reference vi motion semantics over code points and display columns (DESIGN.md appendix C).
 * The buffer is a list of lines of code points; positions are (row, character offset).
 * Word motions are defined by predicates on the flattened text ("j is a word start"), not by scanning loops.
 */
#ifndef REFVI_H
#define REFVI_H
#include <string.h>

#define RV_MAXLN 48
#define RV_MAXCH 48
struct rvbuf {
	int n;
	int len[RV_MAXLN];		/* characters, excluding the newline */
	unsigned cp[RV_MAXLN][RV_MAXCH];
};

struct rvcur {
	int r, o;
	int xcol;			/* sticky display column used by j / k */
	unsigned fch;			/* last f/F/t/T character */
	int fcmd;			/* and command */
};

static int rv_decode(const char *s, unsigned *out)
{
	const unsigned char *u = (const unsigned char *) s;
	int n = 0;
	while (*u) {
		unsigned c;
		int l;
		if (*u < 0x80) { c = *u; l = 1; }
		else if (*u < 0xe0) { c = ((u[0] & 0x1f) << 6) | (u[1] & 0x3f); l = 2; }
		else if (*u < 0xf0) { c = ((u[0] & 0x0f) << 12) | ((u[1] & 0x3f) << 6) | (u[2] & 0x3f); l = 3; }
		else { c = ((u[0] & 7) << 18) | ((u[1] & 0x3f) << 12) | ((u[2] & 0x3f) << 6) | (u[3] & 0x3f); l = 4; }
		out[n++] = c;
		u += l;
	}
	return n;
}

/* load from text with newline-terminated lines */
static void rv_load(struct rvbuf *b, const char *text)
{
	b->n = 0;
	while (*text && b->n < RV_MAXLN) {
		const char *nl = strchr(text, '\n');
		char tmp[256];
		int l = nl ? nl - text : (int) strlen(text);
		memcpy(tmp, text, l);
		tmp[l] = '\0';
		b->len[b->n] = rv_decode(tmp, b->cp[b->n]);
		b->n++;
		text = nl ? nl + 1 : text + l;
	}
}

/* character classes: 0 blank (space, tab, newline), 1 word (alphanumeric, _, anything outside ASCII), 2 other */
static int rv_kind(unsigned c)
{
	if (c == ' ' || c == '\t' || c == '\n' || c == '\r' || c == '\v' || c == '\f')
		return 0;
	if (c >= 0x80 || (c >= '0' && c <= '9') || (c >= 'a' && c <= 'z') || (c >= 'A' && c <= 'Z') || c == '_')
		return 1;
	return 2;
}

/* display width of a character starting at column col */
static int rv_width(unsigned c, int col)
{
	if (c == '\t')
		return 8 - col % 8;
	if ((c >= 0x1100 && c <= 0x115f) || (c >= 0x2e80 && c <= 0xa4cf) || (c >= 0xac00 && c <= 0xd7a3) ||
			(c >= 0xf900 && c <= 0xfaff) || (c >= 0xfe30 && c <= 0xfe6f) || (c >= 0xff00 && c <= 0xff60))
		return 2;
	return 1;
}

static int rv_col(const struct rvbuf *b, int r, int o)
{
	int i, col = 0;
	for (i = 0; i < o && i < b->len[r]; i++)
		col += rv_width(b->cp[r][i], col);
	return col;
}

/* the character whose cells contain column col, else the last character */
static int rv_off_at(const struct rvbuf *b, int r, int col)
{
	int i, c = 0;
	for (i = 0; i < b->len[r]; i++) {
		int w = rv_width(b->cp[r][i], c);
		if (col < c + w)
			return i;
		c += w;
	}
	return b->len[r] ? b->len[r] - 1 : 0;
}

static int rv_last(const struct rvbuf *b, int r)
{
	return b->len[r] ? b->len[r] - 1 : 0;
}

static int rv_firstnb(const struct rvbuf *b, int r)
{
	int i;
	for (i = 0; i < b->len[r]; i++)
		if (rv_kind(b->cp[r][i]) != 0)
			return i;
	return rv_last(b, r);
}

/* ---- flattened view: every line followed by its newline --------------------------------------------- */
struct rvflat { int n; unsigned c[RV_MAXLN * RV_MAXCH]; short r[RV_MAXLN * RV_MAXCH], o[RV_MAXLN * RV_MAXCH]; };

static void rv_flatten(const struct rvbuf *b, struct rvflat *f)
{
	int r, o;
	f->n = 0;
	for (r = 0; r < b->n; r++) {
		for (o = 0; o <= b->len[r]; o++) {
			f->c[f->n] = o < b->len[r] ? b->cp[r][o] : '\n';
			f->r[f->n] = r;
			f->o[f->n] = o;
			f->n++;
		}
	}
}

static int rv_flatpos(const struct rvflat *f, int r, int o)
{
	int i;
	for (i = 0; i < f->n; i++)
		if (f->r[i] == r && f->o[i] == o)
			return i;
	return 0;
}

static int rv_k(const struct rvflat *f, int j, int big)
{
	int k = rv_kind(f->c[j]);
	return big && k == 2 ? 1 : k;
}

static int rv_emptyline(const struct rvflat *f, int j)
{
	return f->c[j] == '\n' && (j == 0 || f->c[j - 1] == '\n');
}

static int rv_wordstart(const struct rvflat *f, int j, int big)
{
	if (rv_emptyline(f, j))
		return 1;
	return rv_k(f, j, big) != 0 && (j == 0 || rv_k(f, j - 1, big) != rv_k(f, j, big));
}

static int rv_wordend(const struct rvflat *f, int j, int big)
{
	if (rv_emptyline(f, j))
		return 1;
	return rv_k(f, j, big) != 0 && (j + 1 >= f->n || rv_k(f, j + 1, big) != rv_k(f, j, big));
}

/* A line holding only blanks counts as a stop the way an empty line does (POSIX: "blank lines" are words).
 * Convention of the editor, expressed as predicates: going forward from p the stop is the newline j of such
 * a line, provided the newline that starts the line lies at or after p (the line is entered from outside,
 * or p is an empty line's newline); going backward the stop is the first blank s of the line, provided the
 * whole line lies before p. */
static int rv_blankstop_fwd(const struct rvflat *f, int p, int j)
{
	int i = j - 1;
	if (f->c[j] != '\n')
		return 0;
	while (i >= 0 && (f->c[i] == ' ' || f->c[i] == '\t'))
		i--;
	return i >= 0 && i < j - 1 && f->c[i] == '\n' && i >= p;
}

static int rv_blankstop_bwd(const struct rvflat *f, int p, int s)
{
	int i = s;
	if (s == 0 || f->c[s - 1] != '\n' || (f->c[s] != ' ' && f->c[s] != '\t'))
		return 0;
	while (i < f->n && (f->c[i] == ' ' || f->c[i] == '\t'))
		i++;
	return i < f->n && f->c[i] == '\n' && i <= p - 1;
}

/* one step of w / b / e on the flat position; returns the new position, or -1 when there is no further stop */
static int rv_wordstep(const struct rvflat *f, int p, int cmd, int big)
{
	int j;
	if (cmd == 'w') {
		for (j = p + 1; j < f->n; j++)
			if (rv_wordstart(f, j, big) || rv_blankstop_fwd(f, p, j))
				return j;
	} else if (cmd == 'e') {
		for (j = p + 1; j < f->n; j++)
			if (rv_wordend(f, j, big) || rv_blankstop_fwd(f, p, j))
				return j;
	} else {
		for (j = p - 1; j >= 0; j--)
			if (rv_wordstart(f, j, big) || rv_blankstop_bwd(f, p, j))
				return j;
	}
	return -1;
}

/* clamp onto an existing character (never the newline of a non-empty line) */
static void rv_clamp(const struct rvbuf *b, struct rvcur *c)
{
	if (b->n == 0) {
		c->r = c->o = 0;
		return;
	}
	if (c->r < 0)
		c->r = 0;
	if (c->r >= b->n)
		c->r = b->n - 1;
	if (c->o > rv_last(b, c->r))
		c->o = rv_last(b, c->r);
	if (c->o < 0)
		c->o = 0;
}

static int rv_find(const struct rvbuf *b, struct rvcur *c, int cmd, unsigned ch, int cnt)
{
	int dir = (cmd == 'f' || cmd == 't') ? 1 : -1;
	int o = c->o, found = 0;
	if (b->n == 0)
		return 1;
	while (found < cnt) {
		o += dir;
		if (o < 0 || o >= b->len[c->r])
			return 1;
		if (b->cp[c->r][o] == ch)
			found++;
	}
	if (cmd == 't' || cmd == 'T')
		o -= dir;
	c->o = o;
	return 0;
}

static int rv_pair(const struct rvbuf *b, struct rvcur *c)
{
	static const char *open = "([{", *close = ")]}";
	struct rvflat f;
	int p, o, dep = 1, dir;
	unsigned me, other;
	const char *q;
	if (b->n == 0)
		return 1;
	for (o = c->o; o < b->len[c->r]; o++)
		if (b->cp[c->r][o] < 128 && b->cp[c->r][o] && (strchr(open, b->cp[c->r][o]) || strchr(close, b->cp[c->r][o])))
			break;
	if (o >= b->len[c->r])
		return 1;
	me = b->cp[c->r][o];
	if ((q = strchr(open, me))) {
		other = close[q - open];
		dir = 1;
	} else {
		q = strchr(close, me);
		other = open[q - close];
		dir = -1;
	}
	rv_flatten(b, &f);
	p = rv_flatpos(&f, c->r, o);
	for (p += dir; p >= 0 && p < f.n; p += dir) {
		if (f.c[p] == other)
			dep--;
		else if (f.c[p] == me)
			dep++;
		if (!dep) {
			c->r = f.r[p];
			c->o = f.o[p];
			return 0;
		}
	}
	return 1;
}

/*
 * apply one motion.  key: the motion character; arg: the character of f/F/t/T; cnt: 0 when no count was
 * typed; wtop / wrows: window (for H M L).  Returns 0 when the cursor position is defined by the
 * reference (c updated), 1 when the motion fails (cursor stays).
 */
static int rv_raw;	/* operator context: the target is not clamped onto a character ($, space and word motions may reach the newline) */
static int rv_motion(const struct rvbuf *b, struct rvcur *c, int key, unsigned arg, int cnt, int wtop, int wrows)
{
	int n = cnt ? cnt : 1, i;
	struct rvcur s = *c;
	struct rvflat f;
	int linewise = 0, keepcol = 0;
	if (b->n == 0) {
		/* an empty buffer: nothing to move on; find / pair motions fail */
		return strchr("fFtT;,%", key) != NULL;
	}
	switch (key) {
	case 'h':
		c->o = c->o - n < 0 ? 0 : c->o - n;
		break;
	case 'l':
		c->o = c->o + n > rv_last(b, c->r) ? rv_last(b, c->r) : c->o + n;
		break;
	case ' ':
		if (rv_raw)
			c->o = c->o + n > b->len[c->r] ? b->len[c->r] : c->o + n;
		else
			c->o = c->o + n > rv_last(b, c->r) ? rv_last(b, c->r) : c->o + n;
		break;
	case 8:		/* ^H: one character back, in logical order */
		c->o = c->o - n < 0 ? 0 : c->o - n;
		break;
	case 'j':
	case 'k':
		c->r += key == 'j' ? n : -n;
		if (c->r < 0) c->r = 0;
		if (c->r >= b->n) c->r = b->n - 1;
		c->o = rv_off_at(b, c->r, c->xcol);
		keepcol = 1;
		break;
	case '0':
		c->o = 0;
		break;
	case '^':
		c->o = rv_firstnb(b, c->r);
		break;
	case '$':
		c->o = rv_raw ? b->len[c->r] : rv_last(b, c->r);
		break;
	case '|':
		c->o = rv_off_at(b, c->r, n - 1);
		if (rv_raw && n - 1 >= rv_col(b, c->r, b->len[c->r]))
			c->o = b->len[c->r];	/* a column past the text: the newline position */
		c->xcol = n - 1;
		keepcol = 1;
		break;
	case 'w': case 'W': case 'e': case 'E': case 'b': case 'B': {
		int p, big = key < 'a';
		int cmd = key | 0x20;
		rv_flatten(b, &f);
		p = rv_flatpos(&f, c->r, c->o);
		for (i = 0; i < n; i++) {
			int q = rv_wordstep(&f, p, cmd, big);
			if (q < 0) {
				/* no further word: as far as it can go */
				p = cmd == 'b' ? 0 : f.n - 1;
				break;
			}
			p = q;
		}
		c->r = f.r[p];
		c->o = f.o[p];
		break;
	}
	case 'f': case 'F': case 't': case 'T':
		c->fch = arg;
		c->fcmd = key;
		if (rv_find(b, c, key, arg, n)) {
			c->r = s.r; c->o = s.o;
			return 1;
		}
		break;
	case ';':
	case ',': {
		int cmd = c->fcmd;
		if (!cmd)
			return 1;
		if (key == ',')
			cmd = cmd == 'f' ? 'F' : cmd == 'F' ? 'f' : cmd == 't' ? 'T' : 't';
		if (rv_find(b, c, cmd, c->fch, n)) {
			c->r = s.r; c->o = s.o;
			return 1;
		}
		break;
	}
	case 'G':
		c->r = cnt ? cnt - 1 : b->n - 1;
		linewise = 1;
		break;
	case '+':
	case '\n':
		c->r += n;
		linewise = 1;
		break;
	case '-':
		c->r -= n;
		linewise = 1;
		break;
	case '_':
		c->r += n - 1;
		linewise = 1;
		break;
	case 'H':
		c->r = wtop + n - 1;
		linewise = 1;
		break;
	case 'L':
		c->r = wtop + wrows - 1 - n + 1;
		linewise = 1;
		break;
	case 'M':
		c->r = wtop + wrows / 2;
		linewise = 1;
		break;
	case '%':
		if (rv_pair(b, c)) {
			c->r = s.r; c->o = s.o;
			return 1;
		}
		break;
	case '{':
	case '}': {
		int d = key == '}' ? 1 : -1;
		for (i = 0; i < n; i++) {
			while (c->r >= 0 && c->r < b->n && b->len[c->r] == 0)
				c->r += d;
			while (c->r >= 0 && c->r < b->n && b->len[c->r] != 0)
				c->r += d;
			if (c->r < 0) c->r = 0;
			if (c->r >= b->n) c->r = b->n - 1;
		}
		c->o = 0;
		break;
	}
	default:
		return 1;
	}
	if (linewise) {
		if (c->r < 0) c->r = 0;
		if (c->r >= b->n) c->r = b->n - 1;
		c->o = rv_firstnb(b, c->r);
	}
	if (!rv_raw)
		rv_clamp(b, c);
	if (!keepcol)
		c->xcol = rv_col(b, c->r, c->o);
	return 0;
}
#endif
