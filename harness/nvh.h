/* common support for the enumeration harnesses: arguments, sharding, result protocol */
#ifndef NVH_H
#define NVH_H
#include <stdarg.h>
#include <stdio.h>
#include <stdlib.h>
#include <string.h>
#include <time.h>
#include <unistd.h>

/* harnesses linked with --wrap (nvenv.h) must reach the real system calls for their own I/O */
#ifdef NV_WRAPPED
#define NV_SYS(x) __real_##x
#else
#define NV_SYS(x) x
#endif

static int nv_shard, nv_nshards = 1;
static int nv_thorough;
static double nv_deadline_s = 1e9;	/* seconds of wall time this shard may use */
static FILE *nv_out;
static long nv_nviol, nv_nsample, nv_ndev;
static int nv_deadline_hit;
static struct timespec nv_t0;

#define NV_MAXSTAT 64
static struct { char key[48]; long v; } nv_stats[NV_MAXSTAT];
static int nv_nstats;
#define NV_MAXHIST 64
static struct { char key[48]; long v; } nv_hist[NV_MAXHIST];
static int nv_nhist;
#define NV_MAXDEV 32
static struct { char slug[48]; long n; } nv_devs[NV_MAXDEV];
static int nv_ndevs;

static const char *nv_arg(int argc, char **argv, const char *key, const char *def)
{
	int i;
	size_t n = strlen(key);
	for (i = 1; i < argc; i++)
		if (!strncmp(argv[i], key, n) && argv[i][n] == '=')
			return argv[i] + n + 1;
	return def;
}

static double nv_elapsed(void)
{
	struct timespec t;
	clock_gettime(CLOCK_MONOTONIC, &t);
	return (t.tv_sec - nv_t0.tv_sec) + (t.tv_nsec - nv_t0.tv_nsec) / 1e9;
}

/* true once the soft deadline has passed; the harness then stops enumerating and says so */
static int nv_expired(void)
{
	static long cnt;
	if (nv_deadline_hit)
		return 1;
	if ((++cnt & 1023) == 0 && nv_elapsed() > nv_deadline_s)
		nv_deadline_hit = 1;
	return nv_deadline_hit;
}

/* deadline test without the sampling counter (for processes that call it only a few times) */
static int nv_expired_now(void)
{
	if (!nv_deadline_hit && nv_elapsed() > nv_deadline_s)
		nv_deadline_hit = 1;
	return nv_deadline_hit;
}

static void nv_init(int argc, char **argv)
{
	const char *o = nv_arg(argc, argv, "out", NULL);
	clock_gettime(CLOCK_MONOTONIC, &nv_t0);
	nv_shard = atoi(nv_arg(argc, argv, "shard", "0"));
	nv_nshards = atoi(nv_arg(argc, argv, "nshards", "1"));
	nv_thorough = !strcmp(nv_arg(argc, argv, "tier", "quick"), "thorough");
	nv_deadline_s = atof(nv_arg(argc, argv, "deadline", "1000000"));
	nv_out = o ? fopen(o, "w") : stdout;
	if (!nv_out) {
		perror("out");
		exit(2);
	}
}

static void nv_stat(const char *key, long v)
{
	int i;
	for (i = 0; i < nv_nstats; i++)
		if (!strcmp(nv_stats[i].key, key)) {
			nv_stats[i].v += v;
			return;
		}
	if (nv_nstats < NV_MAXSTAT) {
		snprintf(nv_stats[nv_nstats].key, sizeof(nv_stats[0].key), "%s", key);
		nv_stats[nv_nstats++].v = v;
	}
}

static void nv_histo(const char *key, long v)
{
	int i;
	for (i = 0; i < nv_nhist; i++)
		if (!strcmp(nv_hist[i].key, key)) {
			nv_hist[i].v += v;
			return;
		}
	if (nv_nhist < NV_MAXHIST) {
		snprintf(nv_hist[nv_nhist].key, sizeof(nv_hist[0].key), "%s", key);
		nv_hist[nv_nhist++].v = v;
	}
}

/* escape a byte string for one-line output */
static char *nv_esc(const char *s, int n)
{
	static char bufs[8][4096];
	static int cur;
	char *b = bufs[cur++ & 7];
	int o = 0, i;
	if (n < 0)
		n = strlen(s);
	for (i = 0; i < n && o < 4080; i++) {
		unsigned char c = s[i];
		if (c == '\n') {
			b[o++] = '\\'; b[o++] = 'n';
		} else if (c == '\t') {
			b[o++] = '\\'; b[o++] = 't';
		} else if (c == '\\') {
			b[o++] = '\\'; b[o++] = '\\';
		} else if (c < 0x20 || c == 0x7f) {
			o += sprintf(b + o, "\\x%02x", c);
		} else {
			b[o++] = c;
		}
	}
	b[o] = '\0';
	return b;
}

static void nv_sample(const char *fmt, ...)
{
	va_list ap;
	if (nv_nsample++ >= 4)
		return;
	fprintf(nv_out, "SAMPLE ");
	va_start(ap, fmt);
	vfprintf(nv_out, fmt, ap);
	va_end(ap);
	fprintf(nv_out, "\n");
}

static void nv_viol(const char *slug, const char *fmt, ...)
{
	va_list ap;
	if (nv_nviol++ >= 25)
		return;
	fprintf(nv_out, "VIOL %s\t", slug);
	va_start(ap, fmt);
	vfprintf(nv_out, fmt, ap);
	va_end(ap);
	fprintf(nv_out, "\n");
	fflush(nv_out);
}

/* the specific deviant result wired to a known finding */
static void nv_dev(const char *slug, const char *fmt, ...)
{
	va_list ap;
	int i;
	nv_ndev++;
	for (i = 0; i < nv_ndevs; i++)
		if (!strcmp(nv_devs[i].slug, slug))
			break;
	if (i == nv_ndevs) {
		if (nv_ndevs == NV_MAXDEV)
			return;
		snprintf(nv_devs[nv_ndevs++].slug, sizeof(nv_devs[0].slug), "%s", slug);
	}
	if (nv_devs[i].n++ >= 6)
		return;
	fprintf(nv_out, "DEV %s\t", slug);
	va_start(ap, fmt);
	vfprintf(nv_out, fmt, ap);
	va_end(ap);
	fprintf(nv_out, "\n");
}

static void nv_note(const char *fmt, ...)
{
	va_list ap;
	fprintf(nv_out, "NOTE ");
	va_start(ap, fmt);
	vfprintf(nv_out, fmt, ap);
	va_end(ap);
	fprintf(nv_out, "\n");
}

static void nv_err(const char *fmt, ...)
{
	va_list ap;
	fprintf(nv_out, "ERR ");
	va_start(ap, fmt);
	vfprintf(nv_out, fmt, ap);
	va_end(ap);
	fprintf(nv_out, "\n");
	fflush(nv_out);
}

static int nv_finish(void)
{
	int i;
	for (i = 0; i < nv_nstats; i++)
		fprintf(nv_out, "STAT %s %ld\n", nv_stats[i].key, nv_stats[i].v);
	for (i = 0; i < nv_nhist; i++)
		fprintf(nv_out, "HIST %s %ld\n", nv_hist[i].key, nv_hist[i].v);
	for (i = 0; i < nv_ndevs; i++)
		fprintf(nv_out, "STAT dev_%s %ld\n", nv_devs[i].slug, nv_devs[i].n);
	if (nv_deadline_hit)
		fprintf(nv_out, "STAT deadline_hit 1\n");
	fprintf(nv_out, "STAT violations_seen %ld\n", nv_nviol);
	fprintf(nv_out, "DONE\n");
	if (nv_out != stdout)
		fclose(nv_out);
	return 0;
}

/* watchdog: a case that does not finish within the horizon is reported as a violation (slug-hang) */
#include <signal.h>
static const char *nv_case_str;	/* optional: the case in hand (set cheaply by harnesses that do not fork per case) */
static char nv_guard_desc[1024];
static char nv_guard_slug[64];
static int nv_guard_exit;	/* exit status used by the watchdog (7 inside nv_forkloop children) */
static void nv_guard_alarm(int sig)
{
	char buf[1400];
	int n = snprintf(buf, sizeof(buf), "VIOL %s\tkind=hang no result within the horizon: %s%s%s\nSTAT deadline_hit 1\n", nv_guard_slug, nv_guard_desc,
		nv_case_str ? " case=" : "", nv_case_str ? nv_case_str : "");
	(void) sig;
	if (nv_out)
		fflush(nv_out);
	if (NV_SYS(write)(nv_out ? fileno(nv_out) : 1, buf, n) < 0)
		_exit(3);
	_exit(nv_guard_exit);
}
static void nv_guard(int seconds, const char *slug, const char *fmt, ...)
{
	va_list ap;
	static int installed;
	if (!installed) {
		signal(SIGALRM, nv_guard_alarm);
		installed = 1;
	}
	snprintf(nv_guard_slug, sizeof(nv_guard_slug), "%s", slug);
	va_start(ap, fmt);
	vsnprintf(nv_guard_desc, sizeof(nv_guard_desc), fmt, ap);
	va_end(ap);
	/* the quick tier works in smaller portions: a quarter of the horizon, so that a hang is reported well
	 * inside the tier's time limit */
	if (!nv_thorough)
		seconds = (seconds + 3) / 4;
	alarm(seconds);
}

/*
 * Harnesses that evaluate their cases in the harness process itself (no fork per case): a fatal signal
 * raised by the code under test (SIGSEGV, or SIGABRT from a sanitizer report) is reported as a violation
 * naming the case in hand, instead of a dead shard.  nv_case_str is a cheap way to name the case.
 */
static const char *nv_crash_slug = "crash";
static void nv_crash_handler(int sig)
{
	char buf[1800];
	int n = snprintf(buf, sizeof(buf), "VIOL %s\tkind=fatal the code under test died with signal %d while evaluating %s%s%s%s (the sanitizer report, if any, is in the shard log)\nSTAT deadline_hit 1\n",
		nv_crash_slug, sig, nv_guard_desc, nv_case_str ? " case=\"" : "", nv_case_str ? nv_esc(nv_case_str, -1) : "", nv_case_str ? "\"" : "");
	if (nv_out)
		fflush(nv_out);
	if (n > (int) sizeof(buf) - 1)
		n = sizeof(buf) - 1;
	if (NV_SYS(write)(nv_out ? fileno(nv_out) : 1, buf, n) < 0)
		_exit(3);
	_exit(0);
}
static void nv_crash_guard(const char *slug)
{
	nv_crash_slug = slug;
	signal(SIGSEGV, nv_crash_handler);
	signal(SIGBUS, nv_crash_handler);
	signal(SIGFPE, nv_crash_handler);
	signal(SIGILL, nv_crash_handler);
	signal(SIGABRT, nv_crash_handler);
}

/* print and reset the counters (used by forked children, whose memory is lost at exit) */
static void nv_flush_stats(void)
{
	int i;
	for (i = 0; i < nv_nstats; i++)
		if (nv_stats[i].v && strncmp(nv_stats[i].key, "max:", 4))
			fprintf(nv_out, "STAT %s %ld\n", nv_stats[i].key, nv_stats[i].v), nv_stats[i].v = 0;
	for (i = 0; i < nv_nhist; i++)
		if (nv_hist[i].v)
			fprintf(nv_out, "HIST %s %ld\n", nv_hist[i].key, nv_hist[i].v), nv_hist[i].v = 0;
	fflush(nv_out);
}

#include <sys/mman.h>
#include <sys/wait.h>
#include <fcntl.h>
/*
 * Run fn(i) for i in [0, n) inside forked children, so that a fatal outcome (sanitizer abort, signal,
 * hang) of case i is attributed to that case, reported as a violation, and the loop resumes at i + 1.
 * desc(i, buf, len) writes a one-line description of case i.  Returns the number of fatal cases.
 */
static long nv_forkloop(long n, void (*fn)(long), void (*desc)(long, char *, int), const char *slug, const char *errpath)
{
	long *cur = mmap(NULL, 4096, PROT_READ | PROT_WRITE, MAP_SHARED | MAP_ANONYMOUS, -1, 0);
	long start = 0, fatal = 0;
	while (start < n) {
		int st;
		pid_t pid;
		/* when case after case dies, each costs a process and a sanitizer report: stop at the deadline
		 * or after 64 fatal cases (the enumeration is then reported as cut short) */
		if (nv_expired_now() || fatal >= 64) {
			fprintf(nv_out, "STAT deadline_hit 1\n");
			break;
		}
		fflush(nv_out);
		*cur = start;
		pid = fork();
		if (pid < 0) {
			nv_err("fork failed");
			return fatal;
		}
		if (!pid) {
			long i;
			int efd = NV_SYS(open)(errpath, O_WRONLY | O_CREAT | O_TRUNC, 0600);
			if (efd >= 0) {
				dup2(efd, 2);
				NV_SYS(close)(efd);
			}
			nv_guard_exit = 7;
			for (i = start; i < n; i++) {
				if (nv_expired()) {
					fprintf(nv_out, "STAT deadline_hit 1\n");
					break;
				}
				*cur = i;
				fn(i);
			}
			alarm(0);
			*cur = n;
			nv_flush_stats();
			_exit(0);
		}
		while (waitpid(pid, &st, 0) < 0)
			;
		if (WIFEXITED(st) && WEXITSTATUS(st) == 0)
			break;
		if (WIFEXITED(st) && WEXITSTATUS(st) == 7) {	/* the child's watchdog reported the hang itself */
			fatal++;
			nv_nviol++;
			start = *cur + 1;
			continue;
		}
		{
			char d[1024] = "", rep[2500] = "";
			FILE *ef = fopen(errpath, "r");
			desc(*cur, d, sizeof(d));
			if (ef) {
				size_t k = fread(rep, 1, sizeof(rep) - 1, ef);
				char *sum;
				rep[k] = '\0';
				fclose(ef);
				/* keep the headline and the first frames */
				if ((sum = strstr(rep, "ERROR:")))
					memmove(rep, sum, strlen(sum) + 1);
				if (strlen(rep) > 900)
					rep[900] = '\0';
			}
			fatal++;
			if (WIFSIGNALED(st))
				nv_viol(slug, "kind=fatal signal=%d case: %s report: %s", WTERMSIG(st), d, nv_esc(rep, -1));
			else
				nv_viol(slug, "kind=fatal exit=%d case: %s report: %s", WEXITSTATUS(st), d, nv_esc(rep, -1));
		}
		start = *cur + 1;
	}
	unlink(errpath);
	munmap(cur, 4096);
	return fatal;
}

/* one conformance trace for lib/nv.py conformance(): a file, the input fed to "vi -s -e <file>", and the files expected afterwards */
static void nv_hexs(char *d, const char *s)
{
	long i, n = strlen(s);
	for (i = 0; i < n; i++)
		sprintf(d + i * 2, "%02x", (unsigned char) s[i]);
	d[n * 2] = '\0';
}
static void nv_trace_ex(const char *exinit, const char *fname, const char *fcontent, const char *input,
		const char *ename1, const char *e1, const char *ename2, const char *e2)
{
	static char h1[8192], h2[8192], h3[8192], h4[8192];
	if (strlen(fcontent) > 4000 || strlen(input) > 4000 || strlen(e1) > 4000 || (e2 && strlen(e2) > 4000))
		return;
	nv_hexs(h1, fcontent);
	nv_hexs(h2, input);
	nv_hexs(h3, e1);
	fprintf(nv_out, "TRACE {\"argv\":[\"-s\",\"-e\",\"%s\"],\"env\":{\"LINES\":\"24\",\"COLUMNS\":\"80\",\"EXINIT\":\"%s\"},\"files\":{\"%s\":\"%s\"},\"input\":\"%s\",\"expect_files\":{\"%s\":\"%s\",\"%s\":\"%s\"",
		fname, exinit, fname, h1, h2, fname, h1, ename1, h3);
	if (e2) {
		nv_hexs(h4, e2);
		fprintf(nv_out, ",\"%s\":\"%s\"", ename2, h4);
	}
	fprintf(nv_out, "}}\n");
}

/* small open-addressing set of 64-bit hashes, to count distinct things */
struct nv_set { unsigned long long *t; long cap, n; };
static void nv_set_init(struct nv_set *s, long cap)
{
	s->cap = 1;
	while (s->cap < cap)
		s->cap <<= 1;
	s->t = calloc(s->cap, sizeof(s->t[0]));
	s->n = 0;
}
static int nv_set_add(struct nv_set *s, unsigned long long h)
{
	long i;
	if (!h)
		h = 1;
	if (s->n * 2 > s->cap) {
		struct nv_set ns;
		long j;
		nv_set_init(&ns, s->cap * 2);
		for (j = 0; j < s->cap; j++)
			if (s->t[j])
				nv_set_add(&ns, s->t[j]);
		free(s->t);
		*s = ns;
	}
	i = (h * 0x9E3779B97F4A7C15ull >> 20) & (s->cap - 1);
	while (s->t[i]) {
		if (s->t[i] == h)
			return 0;
		i = (i + 1) & (s->cap - 1);
	}
	s->t[i] = h;
	s->n++;
	return 1;
}
static unsigned long long nv_hash(const void *p, long n, unsigned long long h)
{
	const unsigned char *s = p;
	long i;
	if (!h)
		h = 1469598103934665603ull;
	for (i = 0; i < n; i++) {
		h ^= s[i];
		h *= 1099511628211ull;
	}
	return h;
}
#endif
