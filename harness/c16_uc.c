/* C16: UTF-8 arithmetic agrees with code points (library level, exhaustive) */
#include "nvh.h"
#include "vi.h"

int peek_re_uc_len(char *s);
int peek_re_uc_dec(char *s);

/* reference encoder / decoder, independent of uc.c */
static int ref_enc(unsigned c, unsigned char *d)
{
	if (c < 0x80) { d[0] = c; return 1; }
	if (c < 0x800) { d[0] = 0xc0 | (c >> 6); d[1] = 0x80 | (c & 0x3f); return 2; }
	if (c < 0x10000) { d[0] = 0xe0 | (c >> 12); d[1] = 0x80 | ((c >> 6) & 0x3f); d[2] = 0x80 | (c & 0x3f); return 3; }
	d[0] = 0xf0 | (c >> 18); d[1] = 0x80 | ((c >> 12) & 0x3f); d[2] = 0x80 | ((c >> 6) & 0x3f); d[3] = 0x80 | (c & 0x3f);
	return 4;
}

static void part_a(void)
{
	unsigned c;
	long n = 0;
	char buf[16];
	/* neighbours of 1..4 bytes placed before and after the character under test */
	static const unsigned nb[] = {'x', 0xe9, 0x20ac, 0x1f600};
	for (c = 1; c <= 0x10ffff; c++) {
		unsigned char e[4];
		int l, k;
		if ((c & 0x3fff) == 1)
			nv_guard(120, "c16-hang", "the scalar values from U+%04X", c);
		if (c >= 0xd800 && c <= 0xdfff)
			continue;
		if ((long) (c % nv_nshards) != nv_shard)
			continue;
		l = ref_enc(c, e);
		n++;
		for (k = 0; k < 4; k++) {
			unsigned char pre[4], post[4];
			int lp = ref_enc(nb[k], pre), lq = ref_enc(nb[(k + 1) & 3], post);
			char *p;
			memcpy(buf, pre, lp);
			memcpy(buf + lp, e, l);
			memcpy(buf + lp + l, post, lq);
			buf[lp + l + lq] = '\0';
			p = buf + lp;
			if (uc_len(p) != l || uc_code(p) != (int) c || uc_end(p) != p + l - 1 ||
			    uc_next(p) != p + l || uc_beg(buf, p + l - 1) != p || uc_prev(buf, p + l) != p ||
			    uc_prev(buf, p) != buf || uc_next(buf) != p ||
			    peek_re_uc_len(p) != l || peek_re_uc_dec(p) != (int) c) {
				nv_viol("c16-scalar", "kind=scalar cp=U+%04X neighbour=%d uc_len=%d(ref %d) uc_code=%x re_len=%d re_dec=%x end=%ld next=%ld beg=%ld",
					c, k, uc_len(p), l, uc_code(p), peek_re_uc_len(p), peek_re_uc_dec(p),
					(long) (uc_end(p) - p), (long) (uc_next(p) - p), (long) (uc_beg(buf, p + l - 1) - p));
				break;
			}
			if (uc_slen(buf) != 3 || uc_off(buf, lp) != 1 || uc_off(buf, lp + l) != 2 || uc_chr(buf, 1) != p ||
			    uc_chr(buf, 2) != p + l) {
				nv_viol("c16-scalar-ctx", "kind=scalar cp=U+%04X neighbour=%d slen=%d off=%d,%d", c, k,
					uc_slen(buf), uc_off(buf, lp), uc_off(buf, lp + l));
				break;
			}
		}
	}
	/* the end of the string: zero characters, zero length, no step forward */
	if (nv_shard == 0) {
		char z[4] = {0, 'q', 0, 0};
		if (uc_len(z) != 0 || peek_re_uc_len(z) != 0 || uc_code(z) != 0 || uc_slen(z) != 0 || uc_end(z) != z || uc_chr(z, 0) != z ||
				uc_chr(z, 3)[0] != '\0' || uc_off(z, 0) != 0)
			nv_viol("c16-scalar", "kind=scalar at the terminating NUL: uc_len=%d re_len=%d uc_code=%d uc_slen=%d end=%ld chr0=%ld (all must be 0), character 3 of the empty string = %d",
				uc_len(z), peek_re_uc_len(z), uc_code(z), uc_slen(z), (long) (uc_end(z) - z), (long) (uc_chr(z, 0) - z), uc_chr(z, 3)[0]);
	}
	nv_stat("scalars", n);
	nv_stat("evaluations", n * 4);
	nv_stat("states", n);
	nv_stat("transitions", n * 4 * 15);
	nv_stat("distinct_nontrivial", n);
	if (nv_shard == 0)
		nv_sample("scalar U+00E9 between 'x' and U+20AC: uc_len=2 uc_code=0xe9 uc_end/next/beg/prev agree with reference encoder");
}

/* (b) strings over a small alphabet */
static const unsigned alpha[] = {'a', 0xe9, 0x20ac, 0x1f600, 0x301, '\n'};
#define NA 6
#define MAXL 8

static unsigned long n_cases;
static void check_string(const int *idx, int n)
{
	char s[MAXL * 4 + 8];
	int st[MAXL + 2];	/* byte offset of each character; st[n] = length */
	int len = 0, i, b, e, cnt;
	char **chop;
	for (i = 0; i < n; i++) {
		st[i] = len;
		len += ref_enc(alpha[idx[i]], (unsigned char *) s + len);
	}
	st[n] = len;
	s[len] = '\0';
	nv_case_str = s;
	if ((++n_cases & 0xfff) == 0)
		nv_guard(120, "c16-hang", "a block of 4096 strings%s", "");
#define BAD(what, ...) do { nv_viol("c16-string", "kind=string s=\"%s\" " what, nv_esc(s, len), __VA_ARGS__); return; } while (0)
	if (uc_slen(s) != n)
		BAD("uc_slen=%d ref=%d", uc_slen(s), n);
	for (i = 0; i <= n; i++) {
		if (uc_chr(s, i) != s + st[i])
			BAD("uc_chr(%d) at %ld ref %d", i, (long) (uc_chr(s, i) - s), st[i]);
		if (uc_off(s, st[i]) != i)
			BAD("uc_off(%d)=%d ref %d", st[i], uc_off(s, st[i]), i);
		if (i < n) {
			if (uc_next(s + st[i]) != s + st[i + 1])
				BAD("uc_next at %d wrong", st[i]);
			if (uc_prev(s, s + st[i + 1]) != s + st[i])
				BAD("uc_prev at %d wrong", st[i + 1]);
			if (uc_end(s + st[i]) != s + st[i + 1] - 1)
				BAD("uc_end at %d wrong", st[i]);
			if (uc_len(s + st[i]) != st[i + 1] - st[i])
				BAD("uc_len at %d wrong", st[i]);
			if (uc_code(s + st[i]) != (int) alpha[idx[i]])
				BAD("uc_code at %d = %x", st[i], uc_code(s + st[i]));
			for (b = st[i]; b < st[i + 1]; b++)
				if (uc_beg(s, s + b) != s + st[i])
					BAD("uc_beg from byte %d wrong", b);
		}
	}
	if (uc_next(s + len) != s + len)
		BAD("uc_next at end moved (%d)", 0);
	if (uc_prev(s, s) != s)
		BAD("uc_prev at start moved (%d)", 0);
	if (uc_chr(s, -1) != s + len)
		BAD("uc_chr(-1) at %ld", (long) (uc_chr(s, -1) - s));
	if (uc_chr(s, n + 1)[0] != '\0' || uc_chr(s, n + 3)[0] != '\0')
		BAD("uc_chr past the end not empty (%d)", 0);
	if (uc_off(s, len + 5) != n)
		BAD("uc_off past end = %d", uc_off(s, len + 5));
	chop = uc_chop(s, &cnt);
	if (cnt != n)
		BAD("uc_chop n=%d", cnt);
	for (i = 0; i <= n; i++)
		if (chop[i] != s + st[i])
			BAD("uc_chop[%d] wrong", i);
	free(chop);
	for (b = 0; b <= n; b++) {
		for (e = -1; e <= n; e++) {
			char *r = uc_sub(s, b, e);
			int ee = e < 0 ? n : e;
			int rl = ee >= b ? st[ee] - st[b] : 0;
			if ((int) strlen(r) != rl || memcmp(r, s + st[b], rl)) {
				free(r);
				BAD("uc_sub(%d,%d) = \"%s\"", b, e, nv_esc(r, -1));
			}
			free(r);
			nv_stat("transitions", 1);
		}
	}
	{
		char *d = uc_dup(s), *c = uc_cat(s, s);
		if (strcmp(d, s) || (int) strlen(c) != 2 * len || memcmp(c, s, len) || memcmp(c + len, s, len)) {
			free(d); free(c);
			BAD("uc_dup/uc_cat wrong (%d)", 0);
		}
		free(d);
		free(c);
	}
	/* the matcher steps through the line character by character: whatever it reports for a bracket, a
	 * negated bracket or a dot starts and ends on a character boundary */
	{
		static struct rset *rs[4];
		static char *pats[4] = {"[^\xc3\xa9]", "[^a]\xe2\x82\xac", ".\xcc\x81", "[\xe2\x82\xac-\xe2\x82\xad]"};
		int pi, g[4], k;
		for (pi = 0; pi < 4; pi++) {
			int sb = 0, se = 0;
			if (!rs[pi])
				rs[pi] = rset_make(1, &pats[pi], 0);
			if (!rs[pi] || rset_find(rs[pi], s, 1, g, 0) < 0)
				continue;
			for (k = 0; k <= n; k++) {
				sb |= st[k] == g[0];
				se |= st[k] == g[1];
			}
			if (!sb || !se || g[1] < g[0])
				BAD("pattern %s matches bytes %d..%d, not a run of whole characters", pats[pi], g[0], g[1]);
		}
	}
#undef BAD
}

static void part_b(int maxl)
{
	int idx[MAXL];
	int n;
	long total = 0, mb = 0;
	for (n = 0; n <= maxl; n++) {
		long cnt = 1, k;
		int i;
		for (i = 0; i < n; i++)
			cnt *= NA;
		for (k = nv_shard; k < cnt; k += nv_nshards) {
			long v = k;
			int multi = 0;
			if (nv_expired())
				goto out;
			for (i = 0; i < n; i++) {
				idx[i] = v % NA;
				v /= NA;
				multi |= idx[i] >= 1 && idx[i] <= 4;
			}
			check_string(idx, n);
			total++;
			mb += multi;
			nv_stat("transitions", 8 * (n + 1));
		}
		if (!nv_expired())
			nv_stat("max:string_len_completed", 0);
	}
out:
	nv_stat("strings", total);
	nv_stat("evaluations", total);
	nv_stat("states", total);
	nv_stat("distinct_nontrivial", mb);
	nv_stat("max:maxlen", maxl);
	if (nv_shard == 0)
		nv_sample("string \"a\\xc3\\xa9\\xe2\\x82\\xac\\xf0\\x9f\\x98\\x80\": uc_slen=4, uc_chr/uc_off/uc_sub(b,e) for all b,e, uc_chop, next/prev round trip vs reference segmentation");
}

int main(int argc, char **argv)
{
	nv_init(argc, argv);
	nv_crash_guard("c16-crash");
	part_a();
	part_b(atoi(nv_arg(argc, argv, "maxlen", nv_thorough ? "7" : "5")));
	return nv_finish();
}
