/* C09: '.', '@r' and N-fold equal retyping (exhaustive differential twins, no model) */
#include "nvx.h"
#include "vi.h"

extern int xrow, xoff;
#define ESC "\x1b"

static const char *changes[] = {
	"x", "3x", "X", "dw", "2dw", "d2w", "dd", "2dd", "D", "\"add", "\"Add", "\"ayw", "cwQ" ESC, "ccnew" ESC, "C" ESC, "Cz" ESC, "sZ" ESC, "2sZ" ESC, "SZ" ESC,
	"rZ", "3rZ", "r\xc3\xa9", "~", "3~", "g~w", "guw", "gUw", "g~~", "J", "3J", "p", "P", "2p", "\"ap", ">>", "<<", ">j", "2>>",
	"iab" ESC, "a \xc3\xa9\xe4\xb8\x80" ESC, "Ixx" ESC, "Ayy" ESC, "oline" ESC, "Oline" ESC, "i1\n2" ESC, "icd\x08" "e" ESC, "3ix" ESC, "2ofoo" ESC,
	"!!tr a-z A-Z\n", "!}tr a-z A-Z\n", "dfa", "d$", "yw", "Y", "dj", "c$new" ESC, "i" ESC, "dG",
};
#define NCH ((int) (sizeof(changes) / sizeof(changes[0])))
static const char *follow[] = {"x", "p", "."};
static const char *macros[] = {"dw", "x2l", "ihi" ESC, "ddp", "A!" ESC "0", "jdd", "3x", "rQl", "\"ayyj",
	"A \xc3\xa9\xc3\xa8\xcf\x80x" ESC "0", "r\xc3\xa9l",	/* registers holding multi-byte text */
	"x.", "dw..", "xj."};		/* macros that push keys themselves (nested pushes) */
#define NMAC ((int) (sizeof(macros) / sizeof(macros[0])))

static const struct { const char *name, *bytes; } pre[] = {
	{"j", "j"}, {"w", "w"}, {"$", "$"}, {"x", "x"}, {"dd", "dd"}, {"yyp", "yyp"}, {"u", "xu"}, {"yw", "yw"},
};
#define NPRE 8

static char cfg_name[64];
static int cfg;

/* ---- digests of the observable state, passed from the twins to their parent ---------------------------------- */
struct digest { unsigned long long h; int row, off, lines, alive; char text[400]; char regs[200]; };
static struct digest *slots;		/* shared */

static void take_digest(struct digest *d)
{
	char *t = lbuf_cp(xb, 0, lbuf_len(xb));
	int c, o = 0;
	unsigned long long h;
	memset(d, 0, sizeof(*d));
	h = nv_hash(t, strlen(t), 0);
	snprintf(d->text, sizeof(d->text), "%s", t);
	d->row = xrow;
	d->off = xoff;
	d->lines = lbuf_len(xb);
	d->alive = !nx_exited;
	h = nv_hash(&d->row, sizeof(int), h);
	h = nv_hash(&d->off, sizeof(int), h);
	for (c = 0; c < 256; c++) {
		int ln = 0;
		char *r;
		if (c == '.' || c == ':' || c == '%')
			continue;	/* the command-recording, last-ex-line and path registers are not part of the claim */
		r = reg_get(c, &ln);
		if (r) {
			h = nv_hash(&c, sizeof(c), h);
			h = nv_hash(r, strlen(r) + 1, h);
			h = nv_hash(&ln, sizeof(ln), h);
			if (o < (int) sizeof(d->regs) - 40 && (c == 0 || c == 'a' || c == '1' || c == '2'))
				o += snprintf(d->regs + o, sizeof(d->regs) - o, "%c=\"%.24s\"%s ", c ? c : '"', nv_esc(r, -1), ln ? "L" : "");
		}
	}
	d->h = h;
	free(t);
}

static int cur_slot;
static void probe_digest(void)
{
	take_digest(&slots[cur_slot]);
}

static long n_rel, n_diff_results;
static struct nv_set results;

/* run keys a and keys b from the current state in two twins and require identical observable states */
static int relate(const char *what, const char *a, const char *b)
{
	slots[0].h = slots[1].h = 0;
	slots[0].alive = slots[1].alive = -1;
	cur_slot = 0;
	if (nx_twin(a, -1, probe_digest) == -1)
		return -1;
	cur_slot = 1;
	if (nx_twin(b, -1, probe_digest) == -1)
		return -1;
	n_rel++;
	__sync_fetch_and_add(&nx_sh->hist[0], 1);
	if (slots[0].alive == -1 || slots[1].alive == -1)
		return 0;	/* a twin died: already reported */
	if (slots[0].h != slots[1].h) {
		nx_viol("c09-differs", "%s: keys \"%s\" give text \"%s\" cursor (%d,%d) regs %s; retyping \"%s\" gives text \"%s\" cursor (%d,%d) regs %s",
			what, nv_esc(a, -1), nv_esc(slots[0].text, -1), slots[0].row, slots[0].off, slots[0].regs,
			nv_esc(b, -1), nv_esc(slots[1].text, -1), slots[1].row, slots[1].off, slots[1].regs);
		return 1;
	}
	nx_visited(slots[0].h, 0);	/* counts distinct resulting states in the shared table */
	return 0;
}

static void nx_at_state(void)
{
	char a[256], b[256];
	int i, f;
	if (!nvx_idle)
		return;
	for (i = 0; i < NCH; i++) {
		const char *c = changes[i];
		/* '.' equals retyping */
		snprintf(a, sizeof(a), "%s.", c);
		snprintf(b, sizeof(b), "%s%s", c, c);
		if (relate("'.' after the change", a, b) < 0)
			return;
		/* 'N.' equals retyping N times */
		snprintf(a, sizeof(a), "%s3.", c);
		snprintf(b, sizeof(b), "%s%s%s%s", c, c, c, c);
		if (relate("'3.' after the change", a, b) < 0)
			return;
		/* hidden state (the repeat buffer) compared by its effect on a following command */
		for (f = 0; f < 3; f++) {
			snprintf(a, sizeof(a), "%s.%s", c, follow[f]);
			snprintf(b, sizeof(b), "%s%s%s", c, c, follow[f]);
			if (relate("'.' then a following command", a, b) < 0)
				return;
		}
		/* a motion in between does not disturb the repeat buffer */
		snprintf(a, sizeof(a), "%sj.", c);
		snprintf(b, sizeof(b), "%sj%s", c, c);
		if (relate("'.' after an intervening motion", a, b) < 0)
			return;
		/* keys that did not make a command (a motion that fails, an unset mark, an unpaired %) are not part of the change */
		{
			static const char *fails[] = {"fd", "'z", "%", ";", "Fq", "`y"};
			int q;
			for (q = 0; q < 6; q++) {
				snprintf(a, sizeof(a), "%s%sj0.", fails[q], c);
				snprintf(b, sizeof(b), "%s%sj0%s", fails[q], c, c);
				if (relate("'.' after a change that was typed after a failed motion", a, b) < 0)
					return;
			}
		}
	}
	/* macros: executing a register equals typing its contents */
	for (i = 0; i < NMAC; i++) {
		char setreg[128];
		/* put the keystrokes into register q as text of a scratch line, then remove that line again */
		snprintf(setreg, sizeof(setreg), "O%s" ESC "0\"qy$dd", macros[i]);
		if (strchr(macros[i], 27))
			snprintf(setreg, sizeof(setreg), "O%.*s\x16\x1b%s" ESC "0\"qy$dd", (int) (strchr(macros[i], 27) - macros[i]), macros[i], strchr(macros[i], 27) + 1);
		snprintf(a, sizeof(a), "%s@q", setreg);
		snprintf(b, sizeof(b), "%s%s", setreg, macros[i]);
		if (relate("'@q'", a, b) < 0)
			return;
		snprintf(a, sizeof(a), "%s2@q", setreg);
		snprintf(b, sizeof(b), "%s%s%s", setreg, macros[i], macros[i]);
		if (relate("'2@q'", a, b) < 0)
			return;
		snprintf(a, sizeof(a), "%s@q@@", setreg);
		snprintf(b, sizeof(b), "%s%s%s", setreg, macros[i], macros[i]);
		if (relate("'@q' then '@@'", a, b) < 0)
			return;
	}
}

static int nx_nops(void) { return NPRE; }
static const char *nx_op_name(int k) { return pre[k].name; }
static int nx_op_bytes(int k, char *buf, int max)
{
	(void) max;
	strcpy(buf, pre[k].bytes);
	return strlen(buf);
}
static int nx_enabled(int k)
{
	(void) k;
	return 1;
}
static unsigned long long nx_state_hash(void) { return 0; }
static int nx_leaf_bytes(char *buf, int max)
{
	(void) max;
	strcpy(buf, ESC ":q!\n");
	return strlen(buf);
}
static void nx_at_exit(void) { }
static const char *nx_config_name(void) { return cfg_name; }

static const char *hist_name(int i) { return i == 0 ? "relations_checked" : "other"; }
static long cfgidx;
static void run_config(int b, int r, int col, int depth)
{
	char *argv[] = {"vi", "-v", "f", NULL};
	static const char *bufs[] = {
		"alpha beta gamma\nsecond a line\n\nfourth (x) y.\nlast\n",
		"a\xc3\xa9\xe4\xb8\x80 b\n\tindented a\nz\n",
		"one\n",
	};
	char setup[64];
	if ((cfgidx++ % nv_nshards) != nv_shard)
		return;
	cfg = b;
	vfs_n = 0;
	vfs_put("f", bufs[b], -1);
	setenv("LINES", "24", 1);
	setenv("COLUMNS", "60", 1);
	setenv("EXINIT", "se wa", 1);
	snprintf(cfg_name, sizeof(cfg_name), "buf%d/start=(%d,col %d)", b, r, col);
	snprintf(setup, sizeof(setup), ":%d\n%d|", r + 1, col + 1);
	nx_bound = depth;
	snprintf(nx_cfg_args, sizeof(nx_cfg_args), "cfg=%d,%d,%d", b, r, col);
	nvx_feed(setup, -1);
	nx_run(3, argv);
	nvx_pend_pos = nvx_pend_len = 0;
	nv_stat("configurations", 1);
	nv_stat("distinct_nontrivial", nx_sh->distinct);
	nv_stat("relations_checked", nx_sh->hist[0]);
	nx_report();
}

/* the recording buffer limit: a longer insert must not corrupt '.' */
static void long_insert(void)
{
	static const int lens[] = {4080, 4090, 4094, 4095, 4096, 4100};
	int i;
	for (i = 0; i < 6; i++) {
		pid_t pid;
		int st;
		if ((cfgidx++ % nv_nshards) != nv_shard)
			continue;
		fflush(nv_out);
		pid = fork();
		if (!pid) {
			char *argv[] = {"vi", "-v", "f", NULL};
			char *in = malloc(lens[i] + 64);
			int o = 0, j;
			char *t;
			vfs_n = 0;
			vfs_put("f", "abcdef\nsecond\n", -1);
			in[o++] = 'x';				/* the previous, short change */
			in[o++] = 'j';
			in[o++] = 'i';
			for (j = 0; j < lens[i]; j++)
				in[o++] = 'q';
			in[o++] = 27;
			in[o++] = 'k';
			in[o++] = '0';
			in[o++] = '.';
			in[o] = '\0';
			nvx_feed(in, o);
			nx_probe = 1;
			nx_probe_fn = NULL;
			signal(SIGALRM, nx_alarm);
			alarm(nx_horizon);
			/* at the next choice point: line 1 is "bcdef" (nothing repeated), "cdef" (x repeated) or the insert repeated */
			{
				extern void long_probe(void);
			}
			nv_main(3, argv);
			t = lbuf_get(xb, 0);
			(void) t;
			_exit(0);
		}
		while (waitpid(pid, &st, 0) < 0)
			;
		if (WIFSIGNALED(st))
			nv_viol("c09-long-insert", "kind=recording an insert of %d bytes followed by '.': the editor died with signal %d", lens[i], WTERMSIG(st));
		nv_stat("transitions", 1);
	}
}

/* long recorded commands below the 4 KiB recording buffer: '.' must still equal retyping */
static char (*long_out)[20000];		/* shared: the file written by each twin */
static void long_repeat(void)
{
	static const int lens[] = {1, 100, 500, 1000, 1021, 1022, 1023, 1024, 1025, 1500, 2046, 2047, 2048, 2049, 3000, 3500, 4000, 4080, 4090};
	int i, tw;
	if (!long_out)
		long_out = mmap(NULL, 2 * sizeof(long_out[0]), PROT_READ | PROT_WRITE, MAP_SHARED | MAP_ANONYMOUS, -1, 0);
	for (i = 0; i < (int) (sizeof(lens) / sizeof(lens[0])); i++) {
		int died = 0;
		if ((cfgidx++ % nv_nshards) != nv_shard)
			continue;
		for (tw = 0; tw < 2; tw++) {
			pid_t pid;
			int st;
			long_out[tw][0] = '\0';
			fflush(nv_out);
			pid = fork();
			if (!pid) {
				char *argv[] = {"vi", "-v", "f", NULL};
				char *in = malloc(2 * lens[i] + 128);
				struct vfile *f;
				int o = 0, j, rep;
				vfs_n = 0;
				vfs_put("f", "abcdef\nsecond\n", -1);
				in[o++] = 'x';				/* an earlier, short change */
				in[o++] = 'j';
				for (rep = 0; rep < (tw ? 2 : 1); rep++) {
					in[o++] = 'A';
					for (j = 0; j < lens[i]; j++)
						in[o++] = "qrs \xc3\xa9"[j % 6 == 5 ? 0 : j % 6 == 4 ? 0 : j % 4];
					in[o++] = 27;
					in[o++] = 'k';
					in[o++] = '0';
				}
				if (!tw)
					in[o++] = '.';
				o += sprintf(in + o, ":w! out\n:q!\n");
				nvx_feed(in, o);
				signal(SIGALRM, nx_alarm);
				alarm(nx_horizon);
				nx_in_leaf = 1;
				nv_main(3, argv);
				f = vfs_find("out");
				snprintf(long_out[tw], sizeof(long_out[tw]), "%s", f && f->exists ? f->data : "(no file written)");
				_exit(0);
			}
			while (waitpid(pid, &st, 0) < 0)
				;
			if (WIFSIGNALED(st) || (WIFEXITED(st) && WEXITSTATUS(st))) {
				nv_viol("c09-long-insert", "kind=recording an append of %d bytes followed by %s: the editor died (status %d)", lens[i], tw ? "retyping" : "'.'", st);
				died = 1;
			}
			nv_stat("transitions", 1);
		}
		__sync_fetch_and_add(&nx_sh->hist[0], 1);
		if (!died && strcmp(long_out[0], long_out[1])) {
			int d0 = 0;
			while (long_out[0][d0] && long_out[0][d0] == long_out[1][d0])
				d0++;
			nv_viol("c09-differs", "kind=long-record keys \"xjA<%d bytes><ESC>k0.\" and retyping the append give different files (lengths %d and %d, first difference at byte %d)",
				lens[i], (int) strlen(long_out[0]), (int) strlen(long_out[1]), d0);
		}
	}
}

int main(int argc, char **argv)
{
	int d, b, r;
	nv_init(argc, argv);
	d = atoi(nv_arg(argc, argv, "depth", nv_thorough ? "2" : "1"));
	nx_init(argc, argv, d, 1 << 20);
	nx_hist_name = hist_name;
	nx_shard_level = -1;
	slots = mmap(NULL, 4 * sizeof(struct digest), PROT_READ | PROT_WRITE, MAP_SHARED | MAP_ANONYMOUS, -1, 0);
	nv_set_init(&results, 1 << 14);
	signal(SIGPIPE, SIG_IGN);
	if (nv_arg(argc, argv, "cfg", NULL)) {
		int c;
		sscanf(nv_arg(argc, argv, "cfg", "0,0,0"), "%d,%d,%d", &b, &r, &c);
		nx_shard_div = 1;
		run_config(b, r, c, nx_replay_n >= 0 ? 4 : d);
		return nv_finish();
	}
	for (b = 0; b < 3; b++)
		for (r = 0; r < (b == 0 ? 5 : b == 1 ? 3 : 1); r++) {
			run_config(b, r, 0, d);
			run_config(b, r, 3, d);
			if (nv_thorough)
				run_config(b, r, 9, d);
		}
	long_insert();
	long_repeat();
	nv_stat("max:depth", d);
	nv_stat("change_commands", nv_shard == 0 ? NCH : 0);
	if (nv_shard == 0)
		nv_sample("config=buf0/start=(1,col 3) after [dd]: twins \"2dw.\" vs \"2dw2dw\", \"2dw3.\" vs four times, \"2dw.p\" vs \"2dw2dwp\", \"2dwj.\" vs \"2dwj2dw\"; macros \"@q\" vs typing: text, cursor and all registers must be identical");
	return nv_finish();
}
