/* the repository's ex.c compiled unmodified, plus read-only accessors to the buffer table */
#include "ex.c"

int peek_ex_nbufs(void) { return LEN(bufs); }
int peek_ex_buf(int i, char **path, struct lbuf **lb, int *id, int *row, int *off, long *mt)
{
	if (i < 0 || i >= LEN(bufs) || !bufs[i].lb)
		return 1;
	*path = bufs[i].path;
	*lb = bufs[i].lb;
	*id = bufs[i].id;
	*row = i == 0 ? xrow : bufs[i].row;
	*off = i == 0 ? xoff : bufs[i].off;
	*mt = bufs[i].mtime;
	return 0;
}
char *peek_ex_kwd(void) { return xkwd; }
int peek_ex_aw(void) { return xaw; }
int peek_ex_wa(void) { return xwa; }
