/* reference search over whole lines (shared by the lbuf_search harness and the vi search-key harness) */
#ifndef REFSEARCH_H
#define REFSEARCH_H
#include "refre_build.h"

struct rline { char s[24]; struct rr_subj sj; };

/* successive matches of the reference on one line; returns the number, fills starts/ends (position indices) */
static int successive(const struct rr_ast *a, struct rr_subj *sj, int lost, int *st, int *en, int max)
{
	int g[RR_MAXGRP * 2], n = 0, pos = 0, i;
	int ng = 1;
	while (pos < sj->np && n < max) {
		int sp, ep;
		sj->q = lost ? pos : 0;
		if (!rr_first_from(a, sj, pos, g, ng))
			break;
		for (sp = 0; sj->off[sp] < g[0]; sp++)
			;
		for (ep = sp; sj->off[ep] < g[1]; ep++)
			;
		if (sp >= sj->np - 1)		/* nothing begins after the terminator */
			break;
		st[n] = sp;
		en[n] = ep;
		n++;
		pos = ep > sp ? ep : ep + 1;
		/* the scan of a line is not resumed at or after its terminator */
		if (pos >= sj->np - 2)
			break;
	}
	sj->q = 0;
	(void) i;
	return n;
}


/*
 * the landing position of one search from (r0, o0): forward = smallest match start after the cursor character on
 * its line, else the first match of the nearest following line; backward = the last of the successive matches
 * that begin before the cursor, else the last one of the nearest preceding line.  lost: judge word boundaries at
 * a resumed offset without the left neighbour (the listed deviation).  Returns 1 when found.
 */
static int rs_search(const struct rr_ast *a, struct rline *ln, int nl, int r0, int o0, int dir, int lost, int *fr, int *fo, int *fl)
{
	int i;
	*fr = *fo = *fl = -1;
	if (dir > 0) {
		int g[4];
		struct rr_subj *sj = &ln[r0].sj;
		sj->q = lost ? o0 + 1 : 0;
		if (o0 + 1 < sj->np && rr_first_from(a, sj, o0 + 1, g, 1)) {
			int sp, ep;
			for (sp = 0; sj->off[sp] < g[0]; sp++)
				;
			for (ep = sp; sj->off[ep] < g[1]; ep++)
				;
			if (sp < sj->np - 1) {
				*fr = r0; *fo = sp; *fl = ep - sp;
			}
		}
		sj->q = 0;
		for (i = r0 + 1; *fr < 0 && i < nl; i++) {
			int st[16], en[16];
			if (successive(a, &ln[i].sj, lost, st, en, 1) > 0) {
				*fr = i; *fo = st[0]; *fl = en[0] - st[0];
			}
		}
	} else {
		int st[16], en[16], n, k;
		n = successive(a, &ln[r0].sj, lost, st, en, 16);
		for (k = 0; k < n; k++)
			if (st[k] < o0) {
				*fr = r0; *fo = st[k]; *fl = en[k] - st[k];
			}
		for (i = r0 - 1; *fr < 0 && i >= 0; i--) {
			n = successive(a, &ln[i].sj, lost, st, en, 16);
			if (n > 0) {
				*fr = i; *fo = st[n - 1]; *fl = en[n - 1] - st[n - 1];
			}
		}
	}
	return *fr >= 0;
}
#endif
