/* C08: vi operators, inserts, puts and registers transform text per the reference model (also C16: text stays valid UTF-8) */
#include "nvx.h"
#include "vi.h"
#include "refvi_edit.h"

extern int xrow, xoff, xtop;

#define ESC "\x1b"
static const char *buftexts[] = {
	"abc def\n  x_1 (y)\n\nlast.\n",
	"a\tb\n\t\xc3\xa9\xe4\xb8\x80z\na\xc3\xa8" "b\xc3\xa9" "c\xc3\xa8\n",
	"e\xcc\x81x yz\n\n{a[b]}\n",
	"",
	"x\n",
	"foo(bar, baz);\nif (a) { b[1] = c; }\n}\n",
	"one.\ntwo \n)x\n  y\nL5\nL6\nL7\nL8\nL9\nL10\nL11\nL12\n",
};
#define NBUF 7

enum { E_OPM, E_OPOP, E_X, E_BX, E_D, E_C, E_S, E_SS, E_Y, E_P, E_BP, E_J, E_R, E_TILDE, E_INS, E_U };
struct eop {
	char bytes[48];
	int kind;
	int op;			/* d y c < > ~ u U */
	int mkey;
	unsigned marg;
	int cnt1, cnt2;
	int reg;		/* register prefix: 0, 'a', 'A', 'b', '1' */
	const char *typed;	/* text typed in insert mode (final text, after the editing keys) */
	int ins;		/* i a I A o O */
	unsigned rch;		/* r: replacement character */
};
static struct eop ops[900];
static int nops, ncore;
static int core_only;

static struct rstate S;
static char cfg_name[64];
static int cfg;
static int pre_xtop;

static const char *regpfx(int reg)
{
	static char b[4];
	if (!reg)
		return "";
	snprintf(b, sizeof(b), "\"%c", reg);
	return b;
}

static void add(struct eop e, const char *fmt, ...)
{
	va_list ap;
	va_start(ap, fmt);
	vsnprintf(e.bytes, sizeof(e.bytes), fmt, ap);
	va_end(ap);
	if (nops < 900)
		ops[nops++] = e;
}

static const char *opkeys(int op)
{
	switch (op) {
	case 'd': return "d";
	case 'y': return "y";
	case 'c': return "c";
	case '<': return "<";
	case '>': return ">";
	case '~': return "g~";
	case 'u': return "gu";
	default: return "gU";
	}
}

static void build_ops(void)
{
	static const struct { const char *k; int key; unsigned arg; } mots[] = {
		{"w", 'w', 0}, {"b", 'b', 0}, {"e", 'e', 0}, {"W", 'W', 0}, {"B", 'B', 0}, {"E", 'E', 0},
		{"h", 'h', 0}, {"l", 'l', 0}, {" ", ' ', 0}, {"0", '0', 0}, {"^", '^', 0}, {"$", '$', 0}, {"3|", '|', 0},
		{"fa", 'f', 'a'}, {"Fa", 'F', 'a'}, {"f\xc3\xa9", 'f', 0xe9}, {"T\xc3\xa9", 'T', 0xe9}, {"tb", 't', 'b'}, {"Tb", 'T', 'b'}, {"f(", 'f', '('}, {"fq", 'f', 'q'},
		{"j", 'j', 0}, {"k", 'k', 0}, {"G", 'G', 0}, {"1G", 'G', 0}, {"+", '+', 0}, {"-", '-', 0}, {"_", '_', 0},
		{"%", '%', 0}, {"}", '}', 0}, {"{", '{', 0}, {"H", 'H', 0}, {"L", 'L', 0},
	};
	static const int opsl[] = {'d', 'y', 'c', '<', '>', '~', 'u', 'U'};
	int i, j;
	struct eop e;
	/* core alphabet for sequences */
	memset(&e, 0, sizeof(e));
	e.kind = E_OPM; e.op = 'd'; e.mkey = 'w'; add(e, "dw");
	e.kind = E_OPOP; e.op = 'd'; add(e, "dd");
	e.kind = E_OPOP; e.op = 'y'; add(e, "yy");
	e.kind = E_OPM; e.op = 'y'; e.mkey = 'e'; add(e, "ye");
	memset(&e, 0, sizeof(e));
	e.kind = E_P; add(e, "p");
	e.kind = E_BP; add(e, "P");
	e.kind = E_X; add(e, "x");
	e.kind = E_J; add(e, "J");
	e.kind = E_OPOP; e.op = 'd'; e.reg = 'a'; add(e, "\"add");
	e.kind = E_P; e.reg = 'a'; add(e, "\"ap");
	e.kind = E_OPOP; e.op = 'y'; e.reg = 'A'; add(e, "\"Ayy");
	e.kind = E_P; e.reg = '1'; add(e, "\"1p");
	memset(&e, 0, sizeof(e));
	e.kind = E_INS; e.ins = 'a'; e.typed = "Q"; add(e, "aQ" ESC);
	e.kind = E_INS; e.ins = 'o'; e.typed = "n\xc3\xa9w"; add(e, "on\xc3\xa9w" ESC);
	memset(&e, 0, sizeof(e));
	e.kind = E_U; e.mkey = 'j'; add(e, "j");
	e.kind = E_U; e.mkey = 'w'; add(e, "w");
	ncore = nops;
	/* operator x motion x counts x register prefix */
	for (i = 0; i < (int) (sizeof(opsl) / sizeof(opsl[0])); i++)
		for (j = 0; j < (int) (sizeof(mots) / sizeof(mots[0])); j++) {
			memset(&e, 0, sizeof(e));
			e.kind = E_OPM;
			e.op = opsl[i];
			e.mkey = mots[j].key;
			e.marg = mots[j].arg;
			e.cnt2 = mots[j].k[0] == '3' ? 3 : mots[j].k[0] == '1' ? 1 : 0;
			e.typed = "Z";
			add(e, "%s%s%s", opkeys(e.op), mots[j].k, e.op == 'c' ? "Z" ESC : "");
			if (opsl[i] == 'd' || opsl[i] == 'y' || opsl[i] == 'c') {
				if (strchr("wbe jk", mots[j].k[0]) && !mots[j].k[1]) {
					e.cnt1 = 2;
					add(e, "2%s%s%s", opkeys(e.op), mots[j].k, e.op == 'c' ? "Z" ESC : "");
					e.cnt2 = 2;
					add(e, "2%s2%s%s", opkeys(e.op), mots[j].k, e.op == 'c' ? "Z" ESC : "");
					e.cnt1 = e.cnt2 = 0;
				}
				if (opsl[i] != 'c' && j < 3) {
					e.reg = 'a';
					add(e, "\"a%s%s", opkeys(e.op), mots[j].k);
					e.reg = 'A';
					add(e, "\"A%s%s", opkeys(e.op), mots[j].k);
					e.reg = 0;
				}
			}
		}
	/* doubled operators */
	for (i = 0; i < (int) (sizeof(opsl) / sizeof(opsl[0])); i++) {
		const char *k = opkeys(opsl[i]);
		char last[2] = {k[strlen(k) - 1], 0};
		memset(&e, 0, sizeof(e));
		e.kind = E_OPOP;
		e.op = opsl[i];
		e.typed = "Z";
		if (!(opsl[i] == 'd' || opsl[i] == 'y'))
			add(e, "%s%s%s", k, last, e.op == 'c' ? "Z" ESC : "");
		e.cnt1 = 2;
		add(e, "2%s%s%s", k, last, e.op == 'c' ? "Z" ESC : "");
		e.cnt1 = 9;
		add(e, "9%s%s%s", k, last, e.op == 'c' ? "Z" ESC : "");
		e.cnt1 = 0;
		if (opsl[i] == 'd' || opsl[i] == 'y') {
			e.reg = 'b';
			add(e, "\"b%s%s", k, last);
			e.reg = 'A';
			if (opsl[i] == 'd')
				add(e, "\"A%s%s", k, last);
		}
	}
	/* simple editing commands */
	memset(&e, 0, sizeof(e));
	e.kind = E_X; e.cnt1 = 3; add(e, "3x");
	e.cnt1 = 9; add(e, "9x");
	e.cnt1 = 0; e.reg = 'a'; add(e, "\"ax");
	memset(&e, 0, sizeof(e));
	e.kind = E_BX; add(e, "X");
	e.cnt1 = 2; add(e, "2X");
	memset(&e, 0, sizeof(e));
	e.kind = E_D; add(e, "D");
	e.kind = E_Y; add(e, "Y");
	e.kind = E_Y; e.cnt1 = 2; add(e, "2Y");
	memset(&e, 0, sizeof(e));
	e.kind = E_C; e.typed = "Z"; add(e, "CZ" ESC);
	e.kind = E_C; e.typed = ""; add(e, "C" ESC);
	e.kind = E_S; e.typed = "Z"; add(e, "sZ" ESC);
	e.kind = E_S; e.typed = "Z"; e.cnt1 = 2; add(e, "2sZ" ESC);
	e.cnt1 = 0;
	e.kind = E_SS; e.typed = "Z"; add(e, "SZ" ESC);
	e.kind = E_SS; e.typed = ""; add(e, "S" ESC);
	memset(&e, 0, sizeof(e));
	e.kind = E_P; e.cnt1 = 2; add(e, "2p");
	e.kind = E_BP; e.cnt1 = 2; add(e, "2P");
	e.cnt1 = 0;
	e.kind = E_P; e.reg = 'b'; add(e, "\"bp");
	e.kind = E_BP; e.reg = 'a'; add(e, "\"aP");
	e.kind = E_P; e.reg = '2'; add(e, "\"2p");
	e.kind = E_P; e.reg = '9'; add(e, "\"9p");
	e.kind = E_P; e.reg = '8'; add(e, "\"8p");
	memset(&e, 0, sizeof(e));
	e.kind = E_J; e.cnt1 = 3; add(e, "3J");
	e.kind = E_J; e.cnt1 = 9; add(e, "9J");
	memset(&e, 0, sizeof(e));
	e.kind = E_R; e.rch = 'Z'; add(e, "rZ");
	e.rch = 0xe9; add(e, "r\xc3\xa9");
	e.rch = 'Z'; e.cnt1 = 2; add(e, "2rZ");
	e.cnt1 = 9; add(e, "9rZ");
	e.cnt1 = 0; e.rch = '\n'; add(e, "r\n");
	e.cnt1 = 2; add(e, "2r\n");
	e.cnt1 = 3; add(e, "3r\n");
	e.cnt1 = 0;
	memset(&e, 0, sizeof(e));
	e.kind = E_TILDE; add(e, "~");
	e.cnt1 = 3; add(e, "3~");
	e.cnt1 = 9; add(e, "9~");
	/* inserts */
	{
		static const char *cmds = "iaIAoO";
		const char *c;
		for (c = cmds; *c; c++) {
			memset(&e, 0, sizeof(e));
			e.kind = E_INS;
			e.ins = *c;
			if (!(*c == 'a')) {
				e.typed = "Q";
				add(e, "%cQ" ESC, *c);
			}
			e.typed = "";
			add(e, "%c" ESC, *c);
			e.typed = "\xc3\xa9 w";
			add(e, "%c\xc3\xa9 w" ESC, *c);
			/* editing keys: ^H, ^W, ^U, ^V */
			e.typed = "ab";
			add(e, "%cabc\x08" ESC, *c);
			e.typed = "ab ";
			add(e, "%cab cd\x17" ESC, *c);
			e.typed = "z";
			add(e, "%cab cd\x15z" ESC, *c);
			e.typed = "a\x01";
			add(e, "%ca\x16\x01" ESC, *c);
		}
		/* ^W erases one word: characters of one kind, not back to the previous blank */
		memset(&e, 0, sizeof(e));
		e.kind = E_INS;
		for (c = "aI"; *c; c++) {
			e.ins = *c;
			e.typed = "foo(";
			add(e, "%cfoo(bar\x17" ESC, *c);
			e.typed = "ab";
			add(e, "%cab..\x17" ESC, *c);
			e.typed = "x.";
			add(e, "%cx.y_1\x17" ESC, *c);
		}
		/* erasing multi-byte characters of every length (C16: the line stays valid UTF-8) */
		memset(&e, 0, sizeof(e));
		e.kind = E_INS;
		for (c = "iA"; *c; c++) {
			e.ins = *c;
			e.typed = "a";
			add(e, "%ca\xc3\xa9\x08" ESC, *c);
			add(e, "%ca\xe4\xb8\x80\x08" ESC, *c);
			add(e, "%ca\xf0\x90\x8d\x88\x08" ESC, *c);
			e.typed = "\xf0\x90\x8d\x88";
			add(e, "%c\xf0\x90\x8d\x88\xf0\x90\x8d\x88\x08" ESC, *c);
			e.typed = "x ";
			add(e, "%cx \xc3\xa9\xf0\x90\x8d\x88\x17" ESC, *c);
		}
		/* multi-line typed text (on lines without indentation this is independent of autoindent) */
		memset(&e, 0, sizeof(e));
		e.kind = E_INS; e.ins = 'i'; e.typed = "1\n2"; add(e, "i1\n2" ESC);
		e.ins = 'A'; e.typed = "1\n\n2"; add(e, "A1\n\n2" ESC);
	}
	/* motions, so that sequences move around */
	memset(&e, 0, sizeof(e));
	e.kind = E_U; e.mkey = 'l'; add(e, "l");
	e.mkey = '$'; add(e, "$");
	e.mkey = 'k'; add(e, "k");
}

/* ---- reference ---------------------------------------------------------------------------------------------- */
static int inclusive_motion(int key)
{
	return key == 'f' || key == 't' || key == 'e' || key == 'E' || key == '%';
}

static int linewise_motion(int key)
{
	return key == 'j' || key == 'k' || key == 'G' || key == '+' || key == '-' || key == '_' || key == 'H' || key == 'L' || key == 'M';
}

static int devflag;		/* the deviant interpretation is being computed */

static void apply_case(char *s, int op)
{
	for (; *s; s++) {
		unsigned char c = *s;
		if (c > 0x7f)
			continue;
		if (op == 'u')
			*s = c >= 'A' && c <= 'Z' ? c + 32 : c;
		else if (op == 'U')
			*s = c >= 'a' && c <= 'z' ? c - 32 : c;
		else
			*s = c >= 'a' && c <= 'z' ? c - 32 : c >= 'A' && c <= 'Z' ? c + 32 : c;
	}
}

static int firstnb_line(const char *s)
{
	int o = 0;
	while (s[o] == ' ' || s[o] == '\t')
		o++;
	return s[o] ? o : (o ? o - 1 : 0);
}

static void indent_of(const char *s, char *out)
{
	int o = 0;
	while (s[o] == ' ' || s[o] == '\t') {
		out[o] = s[o];
		o++;
	}
	out[o] = '\0';
}

static void clamp_cursor(struct rstate *s)
{
	struct rvbuf b;
	rt_view(&s->t, &b);
	rv_clamp(&b, &s->c);
	if (s->t.n)
		s->c.xcol = rv_col(&b, s->c.r, s->c.o);
}

/* apply operator op on the span; typed: text for c.  Returns 0. */
static void apply_operator(struct rstate *s, int op, int r1, int o1, int r2, int o2, int lnmode, int reg, const char *typed)
{
	char span[2048];
	int i;
	rt_span(&s->t, r1, o1, r2, o2, lnmode, span, sizeof(span));
	switch (op) {
	case 'y':
		rt_regput(s, reg, span, lnmode);
		s->c.r = r1;
		if (!lnmode)
			s->c.o = o1;
		break;
	case 'd':
		rt_regput(s, reg, span, lnmode);
		rt_delete(&s->t, r1, o1, r2, o2, lnmode);
		s->c.r = r1;
		if (lnmode) {
			if (r1 < s->t.n)
				s->c.o = firstnb_line(s->t.ln[r1]);
			else
				s->c.o = 0;	/* the last lines went away: column 0 of the new last line */
		} else {
			s->c.o = o1;
		}
		break;
	case 'c': {
		int er, eo;
		rt_regput(s, reg, span, lnmode);
		if (lnmode) {
			char ind[64], repl[512];
			indent_of(s->t.ln[r1], ind);
			snprintf(repl, sizeof(repl), "%s%s", typed[0] ? ind : "", typed);
			if (r2 > r1)
				rt_dellines(&s->t, r1 + 1, r2);
			s->t.ln[r1][0] = '\0';
			rt_replace_span(&s->t, r1, 0, r1, 0, repl, &er, &eo);
		} else {
			rt_replace_span(&s->t, r1, o1, r2, o2, typed, &er, &eo);
		}
		s->c.r = er;
		s->c.o = eo;
		break;
	}
	case '~': case 'u': case 'U':
		if (lnmode) {
			for (i = r1; i <= r2; i++)
				apply_case(s->t.ln[i], op);
			s->c.r = r2;
			s->c.o = firstnb_line(s->t.ln[r2]);
		} else {
			char cased[2048];
			int er, eo;
			snprintf(cased, sizeof(cased), "%s", span);
			apply_case(cased, op);
			rt_replace_span(&s->t, r1, o1, r2, o2, cased, &er, &eo);
			s->c.r = r2;
			s->c.o = o2;
		}
		break;
	case '<': case '>':
		for (i = r1; i <= r2; i++) {
			char tmp[RT_LNSZ];
			if (op == '>') {
				if (s->t.ln[i][0]) {
					snprintf(tmp, sizeof(tmp), "\t%s", s->t.ln[i]);
					strcpy(s->t.ln[i], tmp);
				}
			} else if (s->t.ln[i][0] == ' ' || s->t.ln[i][0] == '\t') {
				memmove(s->t.ln[i], s->t.ln[i] + 1, strlen(s->t.ln[i]));
			}
		}
		s->c.r = r1;
		s->c.o = firstnb_line(s->t.ln[r1]);
		break;
	}
}

/* the span of an operator with a motion; returns 1 when the motion fails (nothing happens) */
static int motion_span(struct rstate *s, struct eop *e, int *r1, int *o1, int *r2, int *o2, int *lnmode)
{
	struct rvbuf b;
	struct rvcur t = s->c;
	int cnt = (e->cnt1 || e->cnt2) ? (e->cnt1 ? e->cnt1 : 1) * (e->cnt2 ? e->cnt2 : 1) : 0;
	int fail, tmp;
	rt_view(&s->t, &b);
	if (b.n == 0)
		return 1;
	rv_raw = 1;
	fail = rv_motion(&b, &t, e->mkey, e->marg, cnt, pre_xtop, atoi(getenv("LINES")) - 1);
	rv_raw = 0;
	s->c.fch = t.fch;
	s->c.fcmd = t.fcmd;
	if (fail)
		return 1;
	*r1 = s->c.r; *o1 = s->c.o;
	*r2 = t.r; *o2 = t.o;
	*lnmode = linewise_motion(e->mkey);
	if (*lnmode) {
		if (*r1 > *r2) { tmp = *r1; *r1 = *r2; *r2 = tmp; }
		*o1 = 0;
		*o2 = 0;
		return 0;
	}
	if (*r1 > *r2 || (*r1 == *r2 && *o1 > *o2)) {
		tmp = *r1; *r1 = *r2; *r2 = tmp;
		tmp = *o1; *o1 = *o2; *o2 = tmp;
		/* a backward motion: the character under the cursor is not part of the span */
		if (e->mkey == '%' && *o2 < b.len[*r2])
			(*o2)++;		/* % is inclusive in both directions */
	} else if (inclusive_motion(e->mkey) && *o2 < b.len[*r2]) {
		(*o2)++;
	}
	return 0;
}

/* process the reference effect of operation e on state s; returns 1 if s is left unchanged because the command fails */
static int ref_apply(struct rstate *s, struct eop *e)
{
	int r1, o1, r2, o2, lnmode, cnt = e->cnt1 ? e->cnt1 : 1;
	struct rvbuf b;
	struct eop m;
	rt_view(&s->t, &b);
	switch (e->kind) {
	case E_U:
		rv_motion(&b, &s->c, e->mkey, e->marg, 0, pre_xtop, atoi(getenv("LINES")) - 1);
		return 0;
	case E_OPM:
		if (b.n == 0)
			return 2;
		if (motion_span(s, e, &r1, &o1, &r2, &o2, &lnmode))
			return 1;
		apply_operator(s, e->op, r1, o1, r2, o2, lnmode, e->reg, e->typed);
		break;
	case E_OPOP:
		if (b.n == 0)
			return 2;	/* operators in an empty buffer: left open, follow the editor */
		r1 = s->c.r;
		r2 = r1 + cnt - 1;
		if (r2 >= b.n)
			r2 = b.n - 1;
		apply_operator(s, e->op, r1, 0, r2, 0, 1, e->reg, e->typed);
		break;
	case E_X: case E_S: case E_TILDE:
		if (b.n == 0)
			return 2;
		r1 = r2 = s->c.r;
		o1 = s->c.o;
		o2 = o1 + cnt > b.len[r1] ? b.len[r1] : o1 + cnt;
		apply_operator(s, e->kind == E_X ? 'd' : e->kind == E_S ? 'c' : '~', r1, o1, r2, o2, 0, e->reg, e->typed);
		break;
	case E_BX:
		if (b.n == 0)
			return 2;
		r1 = r2 = s->c.r;
		o2 = s->c.o;
		o1 = o2 - cnt < 0 ? 0 : o2 - cnt;
		apply_operator(s, 'd', r1, o1, r2, o2, 0, e->reg, NULL);
		break;
	case E_D: case E_C:
		if (b.n == 0)
			return 2;
		r1 = r2 = s->c.r;
		o1 = s->c.o;
		o2 = b.len[r1];
		apply_operator(s, e->kind == E_D ? 'd' : 'c', r1, o1, r2, o2, 0, e->reg, e->typed);
		break;
	case E_SS:
		m = *e;
		m.kind = E_OPOP;
		m.op = 'c';
		return ref_apply(s, &m);
	case E_Y:
		m = *e;
		m.kind = E_OPOP;
		m.op = 'y';
		return ref_apply(s, &m);
	case E_P: case E_BP: {
		struct rreg *rg = &s->reg[reg_idx(e->reg)];
		int i, k;
		if (!rg->set || !rg->t[0])
			return 1;
		if (rg->lnmode) {
			int nl = 0, at;
			const char *p;
			for (p = rg->t; *p; p++)
				nl += *p == '\n';
			if (b.n == 0) {
				s->t.n = 1;
				s->t.ln[0][0] = '\0';
			}
			at = e->kind == E_P ? s->c.r + 1 : s->c.r;
			rt_inslines(&s->t, at, nl * cnt);
			k = at;
			for (i = 0; i < cnt; i++)
				for (p = rg->t; *p;) {
					const char *q = strchr(p, '\n');
					snprintf(s->t.ln[k++], RT_LNSZ, "%.*s", (int) (q - p), p);
					p = q + 1;
				}
			s->c.r = at;
			s->c.o = firstnb_line(s->t.ln[at]);
		} else {
			char rep[2048] = "";
			int er, eo, off;
			if (b.n == 0) {
				s->t.n = 1;
				s->t.ln[0][0] = '\0';
				rt_view(&s->t, &b);
			}
			for (i = 0; i < cnt; i++)
				strncat(rep, rg->t, sizeof(rep) - strlen(rep) - 1);
			off = s->c.o + (b.len[s->c.r] > 0 && e->kind == E_P);
			rt_replace_span(&s->t, s->c.r, off, s->c.r, off, rep, &er, &eo);
			if (strchr(rep, '\n'))
				return 3;	/* multi-line character-wise put: the cursor is not compared */
			s->c.o = eo;
		}
		break;
	}
	case E_J: {
		int n = cnt < 2 ? 2 : cnt, i, off = 0;
		char out[2048] = "";
		if (b.n == 0 || s->c.r + n - 1 >= b.n)
			return 1;
		for (i = s->c.r; i < s->c.r + n; i++) {
			const char *ln = s->t.ln[i];
			int sp = 0, ol = strlen(out);
			if (i > s->c.r) {
				while (*ln == ' ' || *ln == '\t')
					ln++;
				if (ol && out[ol - 1] != ' ' && ln[0] != ')')
					sp = out[ol - 1] == '.' ? 2 : 1;
			}
			off = rt_nchars(out);
			while (sp--)
				strcat(out, " ");
			strcat(out, ln);
		}
		rt_dellines(&s->t, s->c.r + 1, s->c.r + n - 1);
		snprintf(s->t.ln[s->c.r], RT_LNSZ, "%s", out);
		s->c.o = off;
		break;
	}
	case E_R: {
		char rep[64] = "", one[8];
		int i, er, eo, l = 0;
		if (b.n == 0 || s->c.o + cnt > b.len[s->c.r])
			return 1;
		if (e->rch < 0x80) {
			one[l++] = e->rch;
		} else {
			one[l++] = 0xc0 | (e->rch >> 6);
			one[l++] = 0x80 | (e->rch & 0x3f);
		}
		one[l] = '\0';
		for (i = 0; i < cnt; i++)
			strcat(rep, one);
		r1 = s->c.r;
		rt_replace_span(&s->t, r1, s->c.o, r1, s->c.o + cnt, rep, &er, &eo);
		if (e->rch == '\n') {
			s->c.r = r1 + cnt;
			s->c.o = 0;
		} else {
			s->c.o = s->c.o + cnt - 1;
		}
		break;
	}
	case E_INS: {
		int er, eo, off;
		char ind[64] = "", repl[512];
		if (b.n == 0)
			return 2;	/* inserts in an empty buffer (which then holds one line): left open, follow the editor */
		r1 = s->c.r;
		switch (e->ins) {
		case 'i': off = s->c.o; break;
		case 'a': off = b.len[r1] ? s->c.o + 1 : 0; break;
		case 'I': off = firstnb_line(s->t.ln[r1]); if (rv_kind(b.len[r1] ? b.cp[r1][off] : 'x') == 0) off = b.len[r1] ? off : 0; break;
		case 'A': off = b.len[r1]; break;
		default: off = 0; break;
		}
		if (e->ins == 'o' || e->ins == 'O') {
			int at = e->ins == 'o' ? r1 + 1 : r1;
			indent_of(s->t.ln[r1], ind);
			snprintf(repl, sizeof(repl), "%s%s", e->typed[0] ? ind : "", e->typed);
			rt_inslines(&s->t, at, 1);
			s->t.ln[at][0] = '\0';
			rt_replace_span(&s->t, at, 0, at, 0, repl, &er, &eo);
			s->c.r = er;
			s->c.o = eo;
			break;
		}
		if (!e->typed[0]) {
			/* nothing typed: the text is unchanged, the cursor steps back one character */
			s->c.o = off - 1 < 0 ? 0 : off - 1;
			break;
		}
		if (strchr(e->typed, '\n') && !getenv("EXINIT")[0]) {
			/* with autoindent, splitting a line drops the leading blanks of what follows the cursor */
			char *post = s->t.ln[r1] + rt_boff(s->t.ln[r1], off);
			int k = 0;
			while (post[k] == ' ' || post[k] == '\t')
				k++;
			memmove(post, post + k, strlen(post + k) + 1);
		}
		rt_replace_span(&s->t, r1, off, r1, off, e->typed, &er, &eo);
		s->c.r = er;
		s->c.o = eo;
		break;
	}
	}
	clamp_cursor(s);
	return 0;
}

/* ---- comparison -------------------------------------------------------------------------------------------- */
static int regname(int idx)
{
	return idx == 0 ? 0 : idx == 1 ? 'a' : idx == 2 ? 'b' : '1' + idx - 3;
}

static int valid_utf8(const char *s)
{
	const unsigned char *u = (const unsigned char *) s;
	while (*u) {
		int l = *u < 0x80 ? 1 : (*u & 0xe0) == 0xc0 ? 2 : (*u & 0xf0) == 0xe0 ? 3 : (*u & 0xf8) == 0xf0 ? 4 : 0, i;
		if (!l)
			return 0;
		for (i = 1; i < l; i++)
			if ((u[i] & 0xc0) != 0x80)
				return 0;
		u += l;
	}
	return 1;
}

/* 0 equal; bit 1 text, 2 cursor, 4 registers */
static int diff_state(const struct rstate *m, int skip_cursor, int skip_numbered, char *why, int max)
{
	char exp[4096];
	char *got = lbuf_cp(xb, 0, lbuf_len(xb));
	int d = 0, i;
	why[0] = '\0';
	rt_text(&m->t, exp, sizeof(exp));
	if (strcmp(got, exp)) {
		snprintf(why, max, "text \"%s\", reference \"%s\"", nv_esc(got, -1), nv_esc(exp, -1));
		d |= 1;
	}
	free(got);
	if (!d && !skip_cursor && (xrow != m->c.r || xoff != m->c.o)) {
		snprintf(why, max, "cursor (%d,%d), reference (%d,%d)", xrow, xoff, m->c.r, m->c.o);
		d |= 2;
	}
	for (i = 0; !d && i < RT_NREG; i++) {
		int ln = 0;
		char *r = reg_get(regname(i), &ln);
		if (skip_numbered && i >= 3)
			continue;
		if ((r != NULL) != (m->reg[i].set != 0) || (r && (strcmp(r, m->reg[i].t) || !!ln != !!m->reg[i].lnmode))) {
			snprintf(why, max, "register %c holds \"%s\"%s, reference \"%s\"%s", regname(i) ? regname(i) : '"', r ? nv_esc(r, -1) : "(unset)", ln ? " (line-wise)" : "",
				m->reg[i].set ? nv_esc(m->reg[i].t, -1) : "(unset)", m->reg[i].lnmode ? " (line-wise)" : "");
			d |= 4;
		}
	}
	return d;
}

/* follow the editor for things the reference leaves open */
static void resync_numbered(struct rstate *m)
{
	int i;
	for (i = 3; i < RT_NREG; i++) {
		int ln = 0;
		char *r = reg_get(regname(i), &ln);
		m->reg[i].set = r != NULL;
		m->reg[i].lnmode = ln;
		snprintf(m->reg[i].t, sizeof(m->reg[i].t), "%s", r ? r : "");
	}
}

static int state_bad;
static void pre_state(void)
{
	char why[8192];
	int i;
	state_bad = 0;
	/* C16 (c): every line of every reachable state is valid UTF-8 */
	for (i = 0; i < lbuf_len(xb); i++)
		if (!valid_utf8(lbuf_get(xb, i))) {
			nx_viol("c16-invalid-utf8", "line %d is not valid UTF-8 after a character-wise command: \"%s\"", i + 1, nv_esc(lbuf_get(xb, i), -1));
			state_bad = 1;
		}
	if (lbuf_len(xb)) {
		char *ln = lbuf_get(xb, xrow);
		int n = ln ? uc_slen(ln) : 0;
		if (!ln || xoff < 0 || xoff >= n || (n > 1 && xoff == n - 1)) {
			nx_viol("c08-cursor-valid", "cursor (%d,%d) is not on an existing character", xrow, xoff);
			state_bad = 1;
		}
	}
	if (!nvx_idle && !state_bad) {
		nx_viol("c08-idle", "the editor is still inside a command after the keys of the operation%s", "");
		state_bad = 1;
	}
	if (nx_depth > 0 && !state_bad) {
		struct eop *e = &ops[nx_hist[nx_depth - 1]];
		struct rstate before = S, dev;
		int r = ref_apply(&S, e), d;
		int isyank = (e->kind == E_OPM || e->kind == E_OPOP) && e->op == 'y';
		if (r == 1)
			S = before;
		/* a yank returns without refreshing the column remembered for j / k (vi() refreshes it only
		 * after commands that report a change); the reference follows that convention */
		if (isyank || e->kind == E_Y)
			S.c.xcol = before.c.xcol;
		if (r == 2) {
			/* conventions left open (text commands in an empty buffer): follow the editor */
			nx_bound = nx_depth;
			return;
		}
		d = diff_state(&S, r == 3, isyank || e->kind == E_Y, why, sizeof(why));
		if (d) {
			/* the listed deviation: with autoindent, a line left holding only its leading blanks is emptied */
			dev = S;
			if (!getenv("EXINIT")[0] && dev.t.n && dev.c.r < dev.t.n && dev.t.ln[dev.c.r][0] &&
					strspn(dev.t.ln[dev.c.r], " \t") == strlen(dev.t.ln[dev.c.r])) {
				char why2[8192];
				struct rstate keep = S;
				dev.t.ln[dev.c.r][0] = '\0';
				dev.c.o = 0;
				S = dev;
				if (!diff_state(&S, 0, isyank, why2, sizeof(why2))) {
					nx_dev("c08-autoindent-blank-line", "%s from (%d,%d): the line is left empty although blanks of the original text remain before the cursor; %s", nv_esc(e->bytes, -1), before.c.r, before.c.o, why);
					goto done;
				}
				S = keep;
			}
			devflag = 0;
			nx_viol(d == 1 ? "c08-text" : d == 2 ? "c08-cursor" : "c08-register", "%s from (%d,%d): %s", nv_esc(e->bytes, -1), before.c.r, before.c.o, why);
			state_bad = 1;
		}
done:
		if (r == 3 && !state_bad) {
			/* cursor convention left open (multi-line character-wise put): follow the editor,
			 * whose cursor pre_state() has already found to be on an existing character */
			struct rvbuf vb;
			S.c.r = xrow;
			S.c.o = xoff;
			rt_view(&S.t, &vb);
			S.c.xcol = rv_col(&vb, xrow, xoff);
		}
		if (isyank || e->kind == E_Y)
			resync_numbered(&S);
		__sync_fetch_and_add(&nx_sh->hist[r == 1 ? 1 : 0], 1);
	}
	if (state_bad)
		nx_bound = nx_depth;
	pre_xtop = xtop;
}

static void nx_at_state(void) { }
static int nx_nops(void) { return core_only ? ncore : nops; }
static const char *nx_op_name(int k) { return nv_esc(ops[k].bytes, -1); }
static int nx_op_bytes(int k, char *buf, int max)
{
	(void) max;
	strcpy(buf, ops[k].bytes);
	return strlen(buf);
}
static int nx_enabled(int k)
{
	struct eop *e = &ops[core_only ? k : k];
	/* multi-line typed text on an indented line: the autoindent rules for continuation lines are left open */
	if (e->kind == E_INS && strchr(e->typed, '\n') && S.t.n && (S.t.ln[S.c.r][0] == ' ' || S.t.ln[S.c.r][0] == '\t'))
		return 0;
	return 1;
}
static unsigned long long nx_state_hash(void)
{
	unsigned long long h = nv_hash(&cfg, sizeof(cfg), 0);
	char text[4096];
	int i;
	rt_text(&S.t, text, sizeof(text));
	h = nv_hash(text, strlen(text), h);
	h = nv_hash(&S.c, sizeof(S.c), h);
	for (i = 0; i < RT_NREG; i++)
		if (S.reg[i].set)
			h = nv_hash(S.reg[i].t, strlen(S.reg[i].t) + 1, nv_hash(&S.reg[i].lnmode, sizeof(int), nv_hash(&i, sizeof(i), h)));
	h = nv_hash(&xtop, sizeof(xtop), h);
	return h;
}
static int nx_leaf_bytes(char *buf, int max)
{
	(void) max;
	strcpy(buf, ESC "i\x16\x01" ESC ":w! out\n:q!\n");	/* marker (^A) at the cursor, then write */
	return strlen(buf);
}
static void nx_at_exit(void)
{
	if (!nx_in_leaf)
		nx_viol("c08-exit", "the editor exited on an editing command%s", "");
}
static const char *nx_config_name(void) { return cfg_name; }
static const char *hist_name(int i) { return i == 0 ? "command_applied" : "command_failed_no_change"; }

static void run_config(int b, int r, int o, int depth, int core, int noai)
{
	char *argv[] = {"vi", "-v", "f", NULL};
	char setup[96] = "";
	struct rvbuf vb;
	cfg = b * 2 + noai;
	core_only = core;
	vfs_n = 0;
	if (buftexts[b][0])
		vfs_put("f", buftexts[b], -1);
	memset(&S, 0, sizeof(S));
	rt_load(&S.t, buftexts[b]);
	rt_view(&S.t, &vb);
	setenv("LINES", "24", 1);
	setenv("COLUMNS", "60", 1);
	setenv("EXINIT", noai ? "se noai" : "", 1);
	if (vb.n) {
		S.c.r = r;
		S.c.o = o;
		S.c.xcol = rv_col(&vb, r, o);
		snprintf(setup, sizeof(setup), ":%d\n%d|", r + 1, S.c.xcol + 1);
	}
	snprintf(cfg_name, sizeof(cfg_name), "buf%d/start=(%d,%d)%s", b, r, o, core ? "/core" : "");
	nx_bound = depth;
	snprintf(nx_cfg_args, sizeof(nx_cfg_args), "cfg=%d,%d,%d core=%d", b, r, o, core);
	nvx_feed(setup, -1);
	nx_run(3, argv);
	nvx_pend_pos = nvx_pend_len = 0;
	nv_stat("configurations", 1);
	nv_stat("distinct_nontrivial", nx_sh->distinct);
	nx_report();
}

int main(int argc, char **argv)
{
	int b, r, o, d;
	long idx = 0;
	nv_init(argc, argv);
	nx_init(argc, argv, 1, 1 << 21);
	nx_hist_name = hist_name;
	nx_pre_state = pre_state;
	nx_shard_level = -1;
	nx_trace_every = atoi(nv_arg(argc, argv, "trace", nv_thorough ? "397" : "211"));
	signal(SIGPIPE, SIG_IGN);
	build_ops();
	d = atoi(nv_arg(argc, argv, "depth", nv_thorough ? "5" : "3"));
	if (nv_arg(argc, argv, "cfg", NULL)) {
		sscanf(nv_arg(argc, argv, "cfg", "0,0,0"), "%d,%d,%d", &b, &r, &o);
		nx_shard_div = 1;
		run_config(b, r, o, nx_replay_n >= 0 ? 8 : d, atoi(nv_arg(argc, argv, "core", "0")), 0);
		return nv_finish();
	}
	/* every command from every cursor position */
	for (b = 0; b < NBUF; b++) {
		struct rvbuf tb;
		if (nv_arg(argc, argv, "only", NULL) && !strchr(nv_arg(argc, argv, "only", ""), '0' + b))
			continue;
		rv_load(&tb, buftexts[b]);
		for (r = 0; r < (tb.n ? tb.n : 1); r++)
			for (o = 0; o <= (tb.n ? rv_last(&tb, r) : 0); o++)
				if ((idx++ % nv_nshards) == nv_shard)
					run_config(b, r, o, 1, 0, 0);
	}
	/* sequences over the core alphabet (registers, puts, numbered rotation) */
	for (b = 0; b < NBUF; b++) {
		if (b == 3)
			continue;
		if (nv_arg(argc, argv, "only", NULL) && !strchr(nv_arg(argc, argv, "only", ""), '0' + b))
			continue;
		if ((idx++ % nv_nshards) == nv_shard)
			run_config(b, 0, 0, d, 1, 0);
		struct rvbuf tb;
		rv_load(&tb, buftexts[b]);
		if (nv_thorough && tb.n > 1 && (idx++ % nv_nshards) == nv_shard)
			run_config(b, 1, 0, d, 1, 0);
	}
	/* pairs over the full alphabet */
	for (b = 0; b < (nv_thorough ? 3 : 1); b++)
		if (!nv_arg(argc, argv, "only", NULL) && (idx++ % nv_nshards) == nv_shard)
			run_config(b, 0, 0, 2, 0, 0);
	/* a directed history: ten line deletions rotate the numbered registers through all nine slots */
	if (!nv_arg(argc, argv, "only", NULL) && (idx++ % nv_nshards) == nv_shard) {
		int k, dd = -1, p9 = -1, p8 = -1, p1 = -1;
		for (k = 0; k < nops; k++) {
			if (!strcmp(ops[k].bytes, "dd")) dd = k;
			if (!strcmp(ops[k].bytes, "\"9p")) p9 = k;
			if (!strcmp(ops[k].bytes, "\"8p")) p8 = k;
			if (!strcmp(ops[k].bytes, "\"1p")) p1 = k;
		}
		nx_replay_n = 0;
		for (k = 0; k < 10; k++)
			nx_replay_ops[nx_replay_n++] = dd;
		nx_replay_ops[nx_replay_n++] = p9;
		nx_replay_ops[nx_replay_n++] = p8;
		nx_replay_ops[nx_replay_n++] = p1;
		run_config(6, 0, 0, 13, 0, 0);
		nx_replay_n = -1;
	}
	nv_stat("max:depth", d);
	nv_stat("alphabet_size", nv_shard == 0 ? nops : 0);
	if (nv_shard == 0)
		nv_sample("config=buf0/start=(0,4) op=\"2d2w\": text, cursor and registers \\\" a b 1..9 vs reference (span between cursor and the raw motion target, exclusive / inclusive / line-wise by the motion)");
	return nv_finish();
}
