/* C20: each open buffer keeps its own text, position and dirty state across switches */
#include "nvx.h"
#include "exh.h"

enum { K_EDIT, K_UNDO, K_W, K_MOVE, K_E, K_EALT, K_BNUM, K_BPLUS, K_BMINUS, K_BCUR, K_BALT, K_BDEL, K_BRENUM, K_EXT };
/* vikeys: the same operation typed in vi mode (the shortcuts ^^ zj zk zD where they exist) */
static const struct { const char *name, *bytes; int kind; const char *arg; int num; const char *vikeys; } ops[] = {
	{"e f1", "e f1\n", K_E, "f1", 0, ":e f1\n"},
	{"e f2", "e f2\n", K_E, "f2", 0, ":e f2\n"},
	{"e f3", "e f3\n", K_E, "f3", 0, ":e f3\n"},
	{"e #", "e #\n", K_EALT, NULL, 0, "\x1e"},
	{"b 1", "b 1\n", K_BNUM, NULL, 1, ":b 1\n"},
	{"b 2", "b 2\n", K_BNUM, NULL, 2, ":b 2\n"},
	{"b 3", "b 3\n", K_BNUM, NULL, 3, ":b 3\n"},
	{"b +", "b +\n", K_BPLUS, NULL, 0, "zj"},
	{"b -", "b -\n", K_BMINUS, NULL, 0, "zk"},
	{"b #", "b #\n", K_BALT, NULL, 0, ":b #\n"},
	{"1d", "1d\n", K_EDIT, NULL, 0, "1Gdd"},
	{"$a|x|.", "$a\nx\n.\n", K_EDIT, NULL, 0, "Gox\x1b"},
	{"u", "u\n", K_UNDO, NULL, 0, "u"},
	{"w", "w\n", K_W, NULL, 0, ":w\n"},
	{"2", "2\n", K_MOVE, NULL, 0, "2G"},
	{"b %", "b %\n", K_BCUR, NULL, 0, ":b %\n"},
	{"b ~", "b ~\n", K_BRENUM, NULL, 0, ":b ~\n"},
	{"b !", "b !\n", K_BDEL, NULL, 0, "zD"},
	{"external-change f2", "", K_EXT, "f2", 0, ""},
	{"e f4", "e f4\n", K_E, "f4", 0, ":e f4\n"},
	{"b 4", "b 4\n", K_BNUM, NULL, 4, ":b 4\n"},
};
static int vi_mode;
#define NOPS ((int) (sizeof(ops) / sizeof(ops[0])))
static int nops_used = NOPS;

/* ---- reference: which buffer is current, ids, most-recently-used order; per-buffer snapshots ------------------ */
#define MAXB 8
struct rb {
	char path[16];
	int id;
	char *text;
	int row;
	char *canon;		/* canonical history shape incl. the dirty flag */
};
static struct rb mru[MAXB];
static int nmru, idcnt;
static char cfg_name[64];
static int cfg_id;
static int pre_dirty;		/* the current buffer's own dirty flag before the operation (as the editor reports it) */

static int rb_find(const char *path)
{
	int i;
	for (i = 0; i < nmru; i++)
		if (!strcmp(mru[i].path, path))
			return i;
	return -1;
}

static void rb_front(int i)
{
	struct rb t = mru[i];
	memmove(&mru[1], &mru[0], i * sizeof(mru[0]));
	mru[0] = t;
}

static char *canon_of(struct lbuf *lb)
{
	char cb[8192];
	peek_lbuf_canon(lb, cb, sizeof(cb));
	return strdup(cb);
}

static int canon_dirty(const char *c)
{
	const char *d = strstr(c, "dirty=");
	return d && d[6] == '1';
}

/* take the snapshot of the current buffer */
static void snap_current(void)
{
	free(mru[0].text);
	free(mru[0].canon);
	mru[0].text = exh_text(xb);
	mru[0].row = xrow;
	mru[0].canon = canon_of(xb);
}

static void op_effect(int k)
{
	pre_dirty = nmru ? canon_dirty(mru[0].canon) : 0;
	vfs_tick(1);
	if (ops[k].kind == K_EXT) {
		char buf[64];
		nx_trace_ok = 0;
		snprintf(buf, sizeof(buf), "changed behind the editor %ld\n", vfs_clock);
		vfs_put(ops[k].arg, buf, -1);
		vfs_tick(1);
	}
}

/* apply the reference semantics of a switching operation; returns 1 if the current buffer changes identity */
static void ref_switch(int k, char *out)
{
	int kind = ops[k].kind, i, t = -1;
	int refused_dirty = pre_dirty;
	switch (kind) {
	case K_E:
		if (refused_dirty)
			return;
		t = rb_find(ops[k].arg);
		if (t >= 0) {
			rb_front(t);
		} else if (nmru < MAXB) {
			struct vfile *f = vfs_find(ops[k].arg);
			memmove(&mru[1], &mru[0], nmru * sizeof(mru[0]));
			nmru++;
			memset(&mru[0], 0, sizeof(mru[0]));
			snprintf(mru[0].path, sizeof(mru[0].path), "%s", ops[k].arg);
			mru[0].id = ++idcnt;
			mru[0].text = strdup(f && f->exists ? f->data : "");
			mru[0].row = 0;
			mru[0].canon = NULL;	/* a fresh buffer: taken from the editor at this state */
		}
		return;
	case K_EALT:
		if (refused_dirty)
			return;
		if (nmru >= 2)
			rb_front(1);
		return;
	case K_BALT:
		if (nmru >= 2 && !refused_dirty)
			rb_front(1);
		return;
	case K_BNUM:
		for (i = 0; i < nmru; i++)
			if (mru[i].id == ops[k].num)
				t = i;
		if (t >= 0 && !refused_dirty)
			rb_front(t);
		return;
	case K_BPLUS:
		for (i = 0; i < nmru; i++)
			if (mru[i].id > mru[0].id && (t < 0 || mru[i].id < mru[t].id))
				t = i;
		if (t >= 0 && !refused_dirty)
			rb_front(t);
		return;
	case K_BMINUS:
		for (i = 0; i < nmru; i++)
			if (mru[i].id < mru[0].id && (t < 0 || mru[i].id > mru[t].id))
				t = i;
		if (t >= 0 && !refused_dirty)
			rb_front(t);
		return;
	case K_BDEL:
		memmove(&mru[0], &mru[1], (nmru - 1) * sizeof(mru[0]));
		nmru--;
		if (!nmru) {
			memset(&mru[0], 0, sizeof(mru[0]));
			mru[0].id = ++idcnt;
			mru[0].text = strdup("");
			nmru = 1;
		}
		return;
	case K_BRENUM:
		for (i = 0; i < nmru; i++)
			mru[i].id = i + 1;
		idcnt = nmru;
		return;
	}
	(void) out;
}

static int state_bad;
static void pre_state(void)
{
	int k = nx_depth ? nx_hist[nx_depth - 1] : -1;
	int kind = k >= 0 ? ops[k].kind : -1;
	int i, id, row, off, n = 0;
	long mt;
	char *p;
	struct lbuf *lb;
	char *out = nvx_exout ? nvx_exout : "";
	state_bad = 0;
	if (k < 0) {
		/* initial state: one buffer, f1 */
		nmru = 1;
		idcnt = 1;
		memset(&mru[0], 0, sizeof(mru[0]));
		snprintf(mru[0].path, sizeof(mru[0].path), "%s", exh_curpath());
		mru[0].id = 1;
		snap_current();
		return;
	}
	if (kind != K_EDIT && kind != K_UNDO && kind != K_W && kind != K_MOVE && kind != K_EXT && kind != K_BCUR)
		ref_switch(k, out);
	/* 1. the buffer table: order (most recently used first), paths, ids */
	for (i = 0; i < peek_ex_nbufs(); i++) {
		if (peek_ex_buf(i, &p, &lb, &id, &row, &off, &mt))
			continue;
		if (n >= nmru || strcmp(p, mru[n].path) || id != mru[n].id) {
			nx_viol("c20-table", "%s: slot %d holds buffer %d \"%s\", reference %s%d \"%s\" (%d buffers open)", ops[k].name, n, id, p,
				n < nmru ? "" : "none, e.g. ", n < nmru ? mru[n].id : 0, n < nmru ? mru[n].path : "", nmru);
			state_bad = 1;
			return;
		}
		n++;
	}
	if (n != nmru) {
		nx_viol("c20-table", "%s: %d buffers open, reference %d", ops[k].name, n, nmru);
		state_bad = 1;
		return;
	}
	/* 2. every buffer other than the current one is exactly as it was left */
	for (i = 1; i < nmru; i++) {
		char *t, *c;
		peek_ex_buf(i, &p, &lb, &id, &row, &off, &mt);
		t = exh_text(lb);
		c = canon_of(lb);
		if (strcmp(t, mru[i].text))
			nx_viol("c20-text", "%s: the text of buffer \"%s\" (not current) changed to \"%s\", it was \"%s\"", ops[k].name, p, nv_esc(t, -1), nv_esc(mru[i].text, -1)), state_bad = 1;
		else if (row != mru[i].row)
			nx_viol("c20-position", "%s: the saved line of buffer \"%s\" (not current) changed to %d, it was %d", ops[k].name, p, row + 1, mru[i].row + 1), state_bad = 1;
		else if (mru[i].canon && strcmp(c, mru[i].canon))
			nx_viol("c20-history", "%s: the undo history or dirty state of buffer \"%s\" (not current) changed: %s, it was %s", ops[k].name, p, nv_esc(c, -1), nv_esc(mru[i].canon, -1)), state_bad = 1;
		free(t);
		free(c);
		if (state_bad)
			return;
	}
	/* 3. the current buffer: after a pure switch it is exactly as it was left */
	if (kind != K_EDIT && kind != K_UNDO && kind != K_W && kind != K_MOVE && kind != K_EXT) {
		char *t = exh_text(xb), *c = canon_of(xb);
		if (strcmp(t, mru[0].text))
			nx_viol("c20-text", "%s: reached buffer \"%s\" with text \"%s\", it was left with \"%s\"", ops[k].name, mru[0].path, nv_esc(t, -1), nv_esc(mru[0].text, -1)), state_bad = 1;
		else if (xrow != mru[0].row)
			nx_viol("c20-position", "%s: reached buffer \"%s\" at line %d, it was left at line %d", ops[k].name, mru[0].path, xrow + 1, mru[0].row + 1), state_bad = 1;
		else if (mru[0].canon && strcmp(c, mru[0].canon))
			nx_viol("c20-history", "%s: reached buffer \"%s\" with history/dirty state %s, it was left with %s", ops[k].name, mru[0].path, nv_esc(c, -1), nv_esc(mru[0].canon, -1)), state_bad = 1;
		free(t);
		free(c);
		if (state_bad)
			return;
	}
	snap_current();
}

/* the property's own observation: %p and = of the current buffer */
static void probe_print(void)
{
	char exp[1024];
	char *out = nvx_exout ? nvx_exout : "";
	snprintf(exp, sizeof(exp), "%s%d\n", mru[0].text, lbuf_len(xb));
	if (nx_exited)
		return;
	if (lbuf_len(xb) && strcmp(out, exp))
		nx_viol("c20-print", "%%p and $= of buffer \"%s\" print \"%s\", its text is \"%s\" (%d lines)", mru[0].path, nv_esc(out, -1), nv_esc(mru[0].text, -1), lbuf_len(xb));
}

static void nx_at_state(void)
{
	if (state_bad)
		return;
	__sync_fetch_and_add(&nx_sh->hist[nmru < 15 ? nmru : 15], 1);
	if (lbuf_len(xb) && !vi_mode)
		NX_TWIN("%p\n$=\n", -1, probe_print);
}

static int nx_nops(void) { return nops_used; }
static const char *nx_op_name(int k) { return ops[k].name; }
static int nx_op_bytes(int k, char *buf, int max)
{
	(void) max;
	strcpy(buf, vi_mode ? ops[k].vikeys : ops[k].bytes);
	return strlen(buf);
}
static int nx_enabled(int k)
{
	/* b ! of a modified buffer discards it on request; allowed, but then nothing can be compared for it */
	(void) k;
	return nmru < MAXB - 1 || ops[k].kind != K_E;
}
static unsigned long long nx_state_hash(void)
{
	unsigned long long h = nv_hash(&cfg_id, sizeof(cfg_id), 0);
	int i;
	for (i = 0; i < nmru; i++) {
		h = nv_hash(mru[i].path, strlen(mru[i].path) + 1, h);
		h = nv_hash(&mru[i].id, sizeof(int), h);
		h = nv_hash(&mru[i].row, sizeof(int), h);
		h = nv_hash(mru[i].text, strlen(mru[i].text) + 1, h);
		if (mru[i].canon)
			h = nv_hash(mru[i].canon, strlen(mru[i].canon), h);
	}
	h = nv_hash(&idcnt, sizeof(idcnt), h);
	for (i = 0; i < vfs_n; i++)
		if (vfs[i].exists)
			h = nv_hash(vfs[i].data, vfs[i].len + 1, nv_hash(vfs[i].path, strlen(vfs[i].path), h));
	return h;
}
static int nx_leaf_bytes(char *buf, int max)
{
	(void) max;
	strcpy(buf, vi_mode ? "\x1b:w! out\n:q!\n" : "w! out\n.=\nb\nq!\n");
	return strlen(buf);
}
static void nx_at_exit(void)
{
	if (!nx_in_leaf)
		nx_viol("c20-exit", "the editor exited on an operation that is not a quit%s", "");
}
static const char *nx_config_name(void) { return cfg_name; }
static const char *hist_name(int i)
{
	static char b[32];
	snprintf(b, sizeof(b), "states_with_%d_buffers", i);
	return b;
}

static void run_config(int id, int depth)
{
	char *argv_ex[] = {"vi", "-s", "-e", "f1", NULL};
	char *argv_vi[] = {"vi", "-v", "f1", NULL};
	char **argv = id == 2 ? argv_vi : argv_ex;
	vi_mode = id == 2;
	nx_trace_stdout = !vi_mode;
	setenv("LINES", "24", 1);
	setenv("COLUMNS", "60", 1);
	cfg_id = id;
	vfs_n = 0;
	vfs_clock = 1000;
	vfs_put("f1", "a1\na2\na3\n", -1);
	vfs_put("f2", "b1\nb2\n", -1);
	vfs_put("f3", "c1\n", -1);
	if (id == 1)
		vfs_put("f4", "d1\nd2\nd3\nd4\n", -1);
	snprintf(cfg_name, sizeof(cfg_name), id == 2 ? "3files/vi-keys" : id ? "4files" : "3files");
	nops_used = id == 1 ? NOPS : NOPS - 2;
	nx_bound = depth;
	snprintf(nx_cfg_args, sizeof(nx_cfg_args), "cfg=%d", id);
	nx_run(vi_mode ? 3 : 4, argv);
	nv_stat("configurations", 1);
	nv_stat("distinct_nontrivial", nx_sh->distinct);
	nx_report();
}

/* 16 files: fill the table, rotate through every slot, every buffer keeps its text and line */
static void run_sixteen(void)
{
	pid_t pid;
	int st;
	if (nv_shard != 0)
		return;
	fflush(nv_out);
	pid = fork();
	if (!pid) {
		char *argv[] = {"vi", "-s", "-e", "g1", NULL};
		char in[8192] = "", name[16], text[64];
		int i, r;
		vfs_n = 0;
		for (i = 1; i <= 16; i++) {
			snprintf(name, sizeof(name), "g%d", i);
			snprintf(text, sizeof(text), "g%d-one\ng%d-two\ng%d-three\n", i, i, i);
			vfs_put(name, text, -1);
		}
		/* open all, put the cursor of buffer i on line 1 + i % 3, modify the odd ones */
		for (i = 1; i <= 16; i++) {
			if (i > 1)
				snprintf(in + strlen(in), sizeof(in) - strlen(in), "e g%d\n", i);
			snprintf(in + strlen(in), sizeof(in) - strlen(in), "%d\n", 1 + i % 3);
			if (i & 1)
				snprintf(in + strlen(in), sizeof(in) - strlen(in), "s/one|two|three/X%d/\nw\n", i);
		}
		/* three rotations in different orders, then report every buffer */
		for (r = 0; r < 3; r++)
			for (i = 1; i <= 16; i++)
				snprintf(in + strlen(in), sizeof(in) - strlen(in), "b %d\n", r == 0 ? i : r == 1 ? 17 - i : (i * 5) % 16 + 1);
		for (i = 1; i <= 16; i++)
			snprintf(in + strlen(in), sizeof(in) - strlen(in), "b %d\nec <BUF%d>\n.=\n%%p\n", i, i);
		strcat(in, "q!\n");
		nvx_feed(in, -1);
		nx_probe = 1;
		nx_probe_fn = NULL;
		signal(SIGALRM, nx_alarm);
		alarm(nx_horizon);
		nv_main(4, argv);
		/* check the report */
		{
			char *out = nvx_exout ? nvx_exout : "";
			for (i = 1; i <= 16; i++) {
				char tag[16], want[256], *at;
				static const char *w[] = {"one", "two", "three"};
				char l[3][32];
				int q;
				snprintf(tag, sizeof(tag), "<BUF%d>", i);
				at = strstr(out, tag);
				for (q = 0; q < 3; q++) {
					if ((i & 1) && q == i % 3)
						snprintf(l[q], sizeof(l[q]), "g%d-X%d", i, i);
					else
						snprintf(l[q], sizeof(l[q]), "g%d-%s", i, w[q]);
				}
				snprintf(want, sizeof(want), "<BUF%d>%d\n%s\n%s\n%s\n", i, 1 + i % 3, l[0], l[1], l[2]);
				if (!at || strncmp(at, want, strlen(want)))
					nv_viol("c20-sixteen", "kind=sixteen with 16 files open, after rotating through all buffers, buffer g%d reports \"%.80s\", expected to start with \"%s\"",
						i, at ? nv_esc(at, 80) : "(nothing)", nv_esc(want, -1));
			}
		}
		fflush(nv_out);
		_exit(0);
	}
	while (waitpid(pid, &st, 0) < 0)
		;
	if (WIFSIGNALED(st))
		nv_viol("c20-sixteen", "kind=sixteen the editor died with signal %d", WTERMSIG(st));
	nv_stat("states", 16 * 5);
	nv_stat("transitions", 16 * 8);
}

int main(int argc, char **argv)
{
	int depth;
	nv_init(argc, argv);
	depth = atoi(nv_arg(argc, argv, "depth", nv_thorough ? "7" : "5"));
	nx_init(argc, argv, depth, 1 << 22);
	nx_hist_name = hist_name;
	nx_op_effect = op_effect;
	nx_pre_state = pre_state;
	nx_trace_every = atoi(nv_arg(argc, argv, "trace", nv_thorough ? "499" : "67"));
	nx_trace_stdout = 1;
	setenv("EXINIT", "", 1);
	if (nv_arg(argc, argv, "cfg", NULL)) {
		run_config(atoi(nv_arg(argc, argv, "cfg", "0")), depth);
		return nv_finish();
	}
	run_config(0, depth);
	run_config(1, depth - 1);
	run_config(2, depth - 1);	/* the same operations typed in vi mode (^^ zj zk zD and : commands) */
	run_sixteen();
	nv_stat("max:depth", depth);
	if (nv_shard == 0)
		nv_sample("config=3files history=[e f2 ; 1d ; w ; e f3 ; b 1]: buffer table order/ids vs reference, every non-current buffer's text, saved line and canonical history unchanged, the reached buffer exactly as it was left; twin: %%p and $=");
	return nv_finish();
}
