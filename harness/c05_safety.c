/* C05: no memory errors, crashes or hangs for any command stream over UTF-8 text (ASan build) */
#include "nvx.h"
#include "vi.h"

#define ESC "\x1b"
/* ---- token alphabets ----------------------------------------------------------------------------------- */
static const char *vi_core[] = {
	"j", "k", "l", "h", "w", "b", "e", "$", "0", "G", "1G", "fa", ";", "%",
	"x", "dd", "dw", "D", "p", "P", "yy", "J", "u", "\x12", ".",
	"ix" ESC, "a\xc3\xa9" ESC, "ofoo\nbar" ESC, "cwY" ESC, "rZ", "~",
	"d", "c", "\"a", "2", ":1d\n", ":s/a/b/\n", ":g/a/d\n", "/a\n", "n", "@a", "\"ayy", ESC,
};
static const char *vi_more[] = {
	"W", "B", "E", "^", "|", "5|", "+", "-", "_", "{", "}", "[[", "]]", "H", "M", "L", "Fa", "ta", "Ta", ",",
	" ", "\x08", "ma", "`a", "'a", "``", "\x01", "N", "?a\n", "/\n", "/a/+1\n", "2/a\n", "/\\>\n", "/a{3,1}\n", "/[\n", "/\\(\n",
	"X", "3x", "9x", "d$", "dG", "d1G", "2d3w", "d" ESC, "dfa", "dFa", "d%", "d}", "d'a", "dd" "dd", "cc" ESC, "c$z" ESC, "C" ESC, "s" ESC, "S" ESC,
	"Y", "yw", "y$", "3p", "\"ap", "\"Ayy", "\"1p", "\"\\xyy", "\"\\xp", "\".p", "\":p", "\"/p", "3J", "r\n", "3rq", "5~", "g~w", "guw", "gUU", "gU$", "g~~",
	">>", "<<", ">G", "<1G", "3>>", "!!tr a-z A-Z\n", "!}cat\n", "!" ESC,
	"i", "a", "A", "I", "o", "O", "i\x17" ESC, "ia b\x17" ESC, "ia\x15" ESC, "i\x14\x14x" ESC, "i\x04" ESC, "ia\x08" ESC, "i\x08" ESC,
	"i\x16\x01" ESC, "i\x0b" "a:" ESC, "i\x0b\x0b" ESC, "i\x10" ESC, "i\x12" "a" ESC, "i\x01\x01" ESC, "i\n\n\n" ESC, "O\t\n" ESC, "i\x06" "a\x05" ESC,
	"3.", "2u", "@@", "3@a", "@" ESC, "@:", "\"", "\"\\", "r", "f", "z", "g", "\x17", "Z", "[", "]", "`", "'", "m", "q" ESC, "q1", "q\n", "0", "9", "37",
	"\x07", "\x0c", "\x05", "\x19", "\x04", "\x15", "\x06", "\x02", "3\x04", "z\n", "z.", "z-", "5z\n", "z>", "z<", "2z<", "ze", "zf", "zj", "zk", "zJ", "zK", "zD",
	"\x17s", "\x17j", "\x17k", "\x17o", "\x17" "c", "\x17x", "\x17gf", "\x17gd", "\x17\x1d", "\x1e", "\x1d", "\x14", "ga", "gd", "gf", "gl", "gg",
	":\n", ":" ESC, ":q\n", ":w\n", ":w other\n", ":e!\n", ":e f2\n", ":e #\n", ":b 1\n", ":b +\n", ":b -\n", ":b !\n", ":b ~\n", ":b\n", ":b 99\n", ":n\n", ":prev\n",
	":s\n", ":&\n", ":g\n", ":g/a\n", ":g//\n", ":v/a/d\n", ":%s/a/\\1/g\n", ":s/\\(a\\)/\\1\\1/\n", ":s/a*/X/g\n", ":s/$/Q/\n", ":s/^/Q/g\n", ":s//~/\n", ":%s/./&&/g\n",
	":0\n", ":0d\n", ":$d\n", ":99d\n", ":-5,+5d\n", ":3,1d\n", ":'zd\n", ":/nomatch/d\n", ":1,$d\n", ":%d|u\n", ":u\n", ":redo\n", ":u|d\n", ":d x\n", ":pu x\n", ":pu\n", ":0pu\n", ":y\n", ":ya a\n",
	":a\n.\n", ":a\nxx\n.\n", ":i\n\xc3\xa9\n.\n", ":c\n.\n", ":0a\nq\n.\n", ":a", ":k a\n", ":ka\n", ":'a\n", ":=\n", ":.=\n", ":p\n", ":%p\n", ":1,2p\n",
	":r f2\n", ":r nofile\n", ":0r f2\n", ":r !echo hi\n", ":w !cat\n", ":1!tr a-z A-Z\n", ":!true\n", ":so f2\n", ":@ a\n", ":@ x\n", ":rs a\nd\n.\n", ":ra a\n", ":rx a cat\n",
	":se noai\n", ":se ai\n", ":se ic\n", ":se noic\n", ":se hl\n", ":se nohl\n", ":se hll\n", ":se order=0\n", ":se order=2\n", ":se td=-2\n", ":se td=2\n", ":se td=-1\n", ":se lim=2\n", ":se lim=-1\n",
	":se hist=3\n", ":se ru=0\n", ":se ru=7\n", ":se shape\n", ":se noshape\n", ":se xyz\n", ":se\n", ":se wa\n", ":se aw\n",
	":cm fa\n", ":cm! en\n", ":cm\n", ":ft c\n", ":ft\n", ":ta foo\n", ":tn\n", ":tp\n", ":po\n", ":tf\n", ":ec hello\n", ":ec %\n", ":ec #\n", ":e %%%%\n", ":e =x\n",
	":g/a/g/a/g/a/g/a/g/a/g/a/g/a/g/a/g/a/d\n", ":g/./s/a/b/|d\n", ":g/^/m0\n", ":g/a/a\nZ\n.\n", ":g/a/normal x\n", ":xyzzy\n", ":1,2,3p\n", ":;;;\n", ":,,\n", ":1;+1p\n", ":'\n", ":/\n", ":?\n", ":/a/;/a/p\n",
	":$a\nq a\nr a\ns\nt\n.\n", ":u|s/a/b/\n", ":u|p\n", ":u|>\n", ":redo|s/a/b/\n",
	":x\n", ":wq\n", ":xa\n", "ZZ",
};

static const char *ex_tokens[] = {
	"1d\n", "$d\n", "0d\n", "99d\n", "%d\n", "d\n", "-5,+5d\n", "3,1d\n", "'zd\n", "/nomatch/d\n", "u\n", "redo\n", "u|d\n", "d x\n", "pu x\n", "pu\n", "0pu\n", "y\n", "ya a\n",
	"s\n", "&\n", "g\n", "g/a\n", "g//\n", "v/a/d\n", "g/a/d\n", "%s/a/\\1/g\n", "s/\\(a\\)/\\1\\1/\n", "s/a*/X/g\n", "s/$/Q/\n", "s/^/Q/g\n", "s//~/\n", "%s/./&&/g\n", "s/a{3,1}/x/\n", "s/\\>/x/\n", "s/[/x/\n",
	"a\n.\n", "a\nxx\n.\n", "i\n\xc3\xa9\n.\n", "c\n.\n", "0a\nq\n.\n", "a\n", "k a\n", "ka\n", "'a\n", "=\n", ".=\n", "p\n", "%p\n", "1,2p\n", "\n", "+\n", "-\n", "+++\n", "0\n", "$\n",
	"r f2\n", "r nofile\n", "0r f2\n", "r !echo hi\n", "w !cat\n", "1!tr a-z A-Z\n", "!true\n", "so f2\n", "@ a\n", "@ x\n", "rs a\nd\n.\n", "rs a\n", "ra a\n", "rx a cat\n",
	"w\n", "w other\n", "w! other\n", "1,1w\n", "e!\n", "e f2\n", "e #\n", "e\n", "b 1\n", "b +\n", "b -\n", "b !\n", "b ~\n", "b\n", "b 99\n", "n\n", "prev\n", "q\n", "x\n", "wq\n", "xa\n",
	"se noai\n", "se ic\n", "se order=2\n", "se td=-2\n", "se lim=2\n", "se hist=3\n", "se xyz\n", "se\n", "se wa\n", "se aw\n", "cm fa\n", "cm\n", "ft c\n", "ft\n", "ta foo\n", "tn\n", "po\n", "tf\n",
	"ec hello\n", "ec %\n", "ec #\n", "e %%%%\n", "e =x\n", "g/a/g/a/g/a/g/a/g/a/g/a/g/a/g/a/g/a/d\n", "g/./s/a/b/|d\n", "g/a/a\nZ\n.\n", "xyzzy\n", "1,2,3p\n", ";;;\n", ",,\n", "1;+1p\n", "'\n", "/\n", "?\n", "/a/;/a/p\n",
	"/a/\n", "?a?\n", "//\n", "/a", "s/a/b", "s/a", "g/a/s//c/\n", "g/a/u\n", "g/a/e!\n", "g/a/b !\n", "1,$g/^/d\n", "g!/a/d\n", "\"comment\n", "|||\n", "1|2|3\n", "    d\n", ":::d\n",
	/* undo / redo leave the current line where it was: commands without an address right after them */
	"$a\nq a\nr a\ns\nt\n.\n", "u|s/a/b/\n", "u|p\n", "u|.=\n", "u|k a\n", "u|y\n", "u|>\n", "u|j\n", "u|&\n", "u|!tr a b\n", "u|@ a\n", "u|c\nz\n.\n", "redo|s/a/b/\n", "u|u|s/a/b/\n",
};

/* long command lines around the 512-byte limit (built at start-up) */
static char *long_tokens[40];
static int n_long;

/* ---- initial configurations ---------------------------------------------------------------------------- */
static const char *buf_names[] = {"empty", "ascii5", "lines30", "utf8", "long300", "longword", "longutf8word", "longpath", "longindent"};
#define NBUFS 9
static char *buf_text[NBUFS];
static const struct { int rows, cols; } wins[] = {{24, 80}, {2, 2}, {3, 10}, {8, 40}};
static const char *opt_sets[] = {"", "se noai|se noic|se nohl|se order=2|se td=-2|se lim=5|se hist=5|se hll"};

static int cfg_mode, cfg_buf, cfg_win, cfg_opt;	/* mode: 0 vi, 1 ex */
static char cfg_name[128];
static const char **tokens;
static int ntokens;

static void make_buffers(void)
{
	struct sbuf *sb;
	int i;
	buf_text[0] = NULL;
	buf_text[1] = "alpha beta\n  (gamma) a.b\n\nx\nlast line a a\n";
	sb = sbuf_make();
	for (i = 0; i < 30; i++)
		sbuf_printf(sb, "line %d %s\n", i, i % 3 ? "aaa bbb" : "{ (x) }");
	buf_text[2] = sbuf_done(sb);
	buf_text[3] = "a\xc3\xa9\xe4\xb8\x80 b\n\xd8\xa8\xd8\xa7\xd9\x8e\xe2\x80\x8c\xd8\xa8 abc \xd8\xa8\n\te\xcc\x81\tz\n\xf0\x9f\x98\x80\xf0\x9f\x98\x80\n";
	sb = sbuf_make();
	for (i = 0; i < 300; i++)
		sbuf_chr(sb, "ab (c).\t"[i % 8]);
	sbuf_chr(sb, '\n');
	sbuf_str(sb, "short\n");
	buf_text[4] = sbuf_done(sb);
	/* single words, multi-byte words and path names longer than the fixed-size scratch buffers
	 * (each on the first line, where the cursor starts) */
	sb = sbuf_make();
	for (i = 0; i < 300; i++)
		sbuf_chr(sb, 'w');
	sbuf_str(sb, "\nshort word\n");
	buf_text[5] = sbuf_done(sb);
	sb = sbuf_make();
	for (i = 0; i < 130; i++)
		sbuf_str(sb, "\xc3\xa9");
	sbuf_str(sb, " x\nshort word\n");
	buf_text[6] = sbuf_done(sb);
	sb = sbuf_make();
	for (i = 0; i < 140; i++)
		sbuf_str(sb, "/p");
	sbuf_str(sb, ".c:12:3\nshort word\n");
	buf_text[7] = sbuf_done(sb);
	/* indentation longer than the autoindent scratch buffer: blanks, then tabs */
	sb = sbuf_make();
	for (i = 0; i < 200; i++)
		sbuf_chr(sb, ' ');
	sbuf_str(sb, "x y\n");
	for (i = 0; i < 140; i++)
		sbuf_chr(sb, '\t');
	sbuf_str(sb, "z\nshort word\n");
	buf_text[8] = sbuf_done(sb);
}

static void make_long_tokens(int exmode)
{
	static const int lens[] = {510, 511, 512, 513, 700};
	int i, j;
	n_long = 0;
	for (i = 0; i < 5; i++) {
		char *t = malloc(lens[i] + 16);
		int o = 0;
		if (!exmode)
			t[o++] = ':';
		o += sprintf(t + o, "s/a/");
		for (j = o; j < lens[i] - 1; j++)
			t[j] = 'x';
		t[lens[i] - 1] = '/';
		t[lens[i]] = '\n';
		t[lens[i] + 1] = '\0';
		long_tokens[n_long++] = t;
	}
	{
		char *t = malloc(800);
		int o = 0;
		if (!exmode)
			t[o++] = ':';
		o += sprintf(t + o, "ec ");
		for (j = 0; j < 600; j++)
			t[o++] = '%';
		t[o++] = '\n';
		t[o] = '\0';
		long_tokens[n_long++] = t;
	}
	/* path names whose % / # expansions land around the size of the expansion buffer (1024), and the
	 * commands that expand them */
	{
		static const int plen[] = {255, 256, 257, 341, 511, 512};
		static const char *users[] = {"e! %%%%\n", "e! %%%\n", "e! %%\n", "w! %%%%\n", "e! #%#%\n", "ec %%%%\n"};
		for (i = 0; i < 6; i++) {
			char *t = malloc(plen[i] + 16);
			int o = 0;
			if (!exmode)
				t[o++] = ':';
			o += sprintf(t + o, "e! ");
			for (j = 0; j < plen[i]; j++)
				t[o++] = 'p';
			t[o++] = '\n';
			t[o] = '\0';
			long_tokens[n_long++] = t;
		}
		for (i = 0; i < 6; i++) {
			char *t = malloc(32);
			sprintf(t, "%s%s", exmode ? "" : ":", users[i]);
			long_tokens[n_long++] = t;
		}
		/* option and filetype arguments longer than the fields that store them */
		{
			static const char *cmdn[] = {"ft ", "cm ", "se "};
			static const int al[] = {31, 32, 40, 79, 200};
			int c2, a2;
			for (c2 = 0; c2 < 3; c2++)
				for (a2 = 0; a2 < 5 && n_long < 38; a2++) {
					char *t = malloc(al[a2] + 16);
					int o = 0;
					if (!exmode)
						t[o++] = ':';
					o += sprintf(t + o, "%s", cmdn[c2]);
					for (j = 0; j < al[a2]; j++)
						t[o++] = 'q';
					t[o++] = '\n';
					t[o] = '\0';
					long_tokens[n_long++] = t;
				}
		}
	}
}

static void setup_config(void)
{
	char r[16], c[16];
	vfs_n = 0;
	if (buf_text[cfg_buf])
		vfs_put("f", buf_text[cfg_buf], -1);
	vfs_put("f2", "second file\nd\n", -1);
	/* a tags file, so that the tag commands do more than fail (TAGPATH of the environment points nowhere) */
	vfs_put("tags", "alpha\tf\t/alpha/\nfoo\tf2\t/second/\nfoo\tf\t2\nlast\tf\t$\n", -1);
	setenv("TAGPATH", "tags", 1);
	snprintf(r, sizeof(r), "%d", wins[cfg_win].rows);
	snprintf(c, sizeof(c), "%d", wins[cfg_win].cols);
	setenv("LINES", r, 1);
	setenv("COLUMNS", c, 1);
	setenv("EXINIT", opt_sets[cfg_opt], 1);
	snprintf(cfg_name, sizeof(cfg_name), "%s/%s/%dx%d/%s", cfg_mode ? "ex" : "vi", buf_names[cfg_buf],
		wins[cfg_win].rows, wins[cfg_win].cols, cfg_opt ? "opts" : "defaults");
}

/* ---- explorer callbacks -------------------------------------------------------------------------------- */
static int use_more;
static int nx_nops(void)
{
	return ntokens;
}
static const char *tok(int k)
{
	return tokens[k];
}
static const char *nx_op_name(int k)
{
	return nv_esc(tok(k), -1);
}
static int nx_op_bytes(int k, char *buf, int max)
{
	int n = strlen(tok(k));
	if (n > max)
		n = max;
	memcpy(buf, tok(k), n);
	return n;
}
static int first_limit;		/* > 0: the first operation of a history is taken from the first first_limit tokens */
static int nx_enabled(int k)
{
	if (first_limit && nx_depth == 0 && k >= first_limit)
		return 0;
	return 1;
}
static void nx_at_state(void)
{
}
static unsigned long long nx_state_hash(void)
{
	return 0;
}
static int nx_leaf_bytes(char *buf, int max)
{
	(void) max;
	if (cfg_mode) {
		/* :g with a/i/c reads one text block per execution from the script: end up to 60 of them */
		int i;
		strcpy(buf, "\n");
		for (i = 0; i < 60; i++)
			strcat(buf, ".\n");
		strcat(buf, "q!\n");
	} else {
		strcpy(buf, ESC ESC ESC ":\x05q!\n");
	}
	return strlen(buf);
}
static void nx_at_exit(void)
{
	__sync_fetch_and_add(&nx_sh->hist[nx_in_leaf ? 0 : 1], 1);
}
static const char *nx_config_name(void)
{
	return cfg_name;
}
static const char *hist_name(int i)
{
	return i == 0 ? "quit_at_leaf" : i == 1 ? "quit_by_command" : "other";
}

static void explore_config(int mode, int buf, int win, int opt, int depth, int more)
{
	int core_first = more == 2;
	char *argv_vi[] = {"vi", "-v", "f", NULL};
	char *argv_ex[] = {"vi", "-s", "-e", "f", NULL};
	static const char **tl;
	int n = 0, i;
	cfg_mode = mode;
	cfg_buf = buf;
	cfg_win = win;
	cfg_opt = opt;
	use_more = more;
	setup_config();
	make_long_tokens(mode);
	free(tl);
	tl = malloc(800 * sizeof(tl[0]));
	if (mode) {
		for (i = 0; i < (int) (sizeof(ex_tokens) / sizeof(ex_tokens[0])); i++)
			tl[n++] = ex_tokens[i];
		for (i = 0; i < n_long; i++)
			tl[n++] = long_tokens[i];
	} else {
		for (i = 0; i < (int) (sizeof(vi_core) / sizeof(vi_core[0])); i++)
			tl[n++] = vi_core[i];
		if (more) {
			for (i = 0; i < (int) (sizeof(vi_more) / sizeof(vi_more[0])); i++)
				tl[n++] = vi_more[i];
			for (i = 0; i < n_long; i++)
				tl[n++] = long_tokens[i];
		}
	}
	tokens = tl;
	ntokens = n;
	first_limit = core_first ? (mode ? 40 : (int) (sizeof(vi_core) / sizeof(vi_core[0]))) : 0;
	nx_bound = depth;
	snprintf(nx_cfg_args, sizeof(nx_cfg_args), "cfg=%d,%d,%d,%d,%d", mode, buf, win, opt, more);
	nx_run(mode ? 4 : 3, mode ? argv_ex : argv_vi);
	nv_stat("configurations", 1);
	nx_report();
}

/* ---- (ii) deviation-bounded streams: base sessions with k substitutions / deletions / insertions --------- */
static const char *sessions[][16] = {
	{"ifoo bar" ESC, "0", "w", "dw", "u", "\x12", "yy", "p", "k", "J", ".", ":1,2d\n", "u", NULL},
	{"oone\ntwo\nthree" ESC, "1G", "/t\n", "n", "cwX" ESC, ".", "G", "dd", "P", "\"ayy", "@a", ":%s/o/0/g\n", NULL},
	{"j", "w", "\"add", "\"Ayy", "\"ap", "3x", "2.", "u", "u", "\x12", ":g/a/s//A/\n", "G", "d1G", NULL},
	{"A \xc3\xa9\xe4\xb8\x80" ESC, "h", "~", "x", "p", "rZ", "0", "fa", ";", ",", "dta", "u", ":w\n", NULL},
	{":a\nx\ny\n.\n", ":1ka\n", ":'a,$d\n", ":u\n", ":0r f2\n", ":g/d/d\n", ":e f2\n", ":e #\n", ":b 1\n", "dd", ":q\n", NULL},
	{"\x17s", "j", "dd", "\x17j", "G", "ofoo" ESC, "\x17o", "\x06", "\x02", "z.", "\x04", "\x15", "H", "L", "M", NULL},
	{">>", ".", "<<", "!!tr a-z A-Z\n", "u", "ma", "G", "d'a", "u", "y'a", "P", "``", "'a", NULL},
	{"i\x14" "ab\n" "cd\x17" "e" ESC, "k", "A\x16\x01" ESC, "I\x0b" "a:" ESC, "O" ESC, "S" ESC, "C" ESC, "s" ESC, "u", "u", NULL},
};
#define NSESS 8

static long stream_runs;
/* run one complete stream in a forked child; classify the outcome */
static void run_stream(const char **toks, int n, const char *what)
{
	pid_t pid;
	int st, i;
	char desc[2048];
	int o = 0;
	desc[0] = '\0';
	for (i = 0; i < n && o < (int) sizeof(desc) - 100; i++)
		o += snprintf(desc + o, sizeof(desc) - o, "%s%s", i ? " ; " : "", nv_esc(toks[i], -1));
	fflush(nv_out);
	stream_runs++;
	pid = fork();
	if (!pid) {
		char *argv_vi[] = {"vi", "-v", "f", NULL};
		char leaf[256];
		int efd = __real_open(nx_errpath, O_WRONLY | O_CREAT | O_TRUNC, 0600);
		if (efd >= 0) {
			dup2(efd, 2);
			__real_close(efd);
		}
		for (i = 0; i < n; i++)
			nvx_feed(toks[i], -1);
		nvx_feed(leaf, nx_leaf_bytes(leaf, sizeof(leaf)));
		nx_in_leaf = 1;
		nx_replay_n = 0;
		nx_depth = 0;
		snprintf(nv_guard_desc, sizeof(nv_guard_desc), "config=%s stream=[%s] (%s)", cfg_name, desc, what);
		snprintf(nv_guard_slug, sizeof(nv_guard_slug), "hang");
		signal(SIGALRM, nv_guard_alarm);
		alarm(nx_horizon);
		nv_main(3, argv_vi);
		_exit(0);
	}
	while (waitpid(pid, &st, 0) < 0)
		;
	if (WIFSIGNALED(st) || (WIFEXITED(st) && WEXITSTATUS(st))) {
		char rep[1600] = "";
		FILE *ef = fopen(nx_errpath, "r");
		if (ef) {
			size_t r = fread(rep, 1, sizeof(rep) - 1, ef);
			char *sum;
			rep[r] = '\0';
			fclose(ef);
			if ((sum = strstr(rep, "ERROR:")))
				memmove(rep, sum, strlen(sum) + 1);
			if (strlen(rep) > 1000)
				rep[1000] = '\0';
		}
		nv_viol("crash", "kind=stream config=%s stream=[%s] (%s): %s %d: %s", cfg_name, desc, what,
			WIFSIGNALED(st) ? "signal" : "exit status", WIFSIGNALED(st) ? WTERMSIG(st) : WEXITSTATUS(st), nv_esc(rep, -1));
	}
}

static void deviation_streams(int k2)
{
	int s, i, j, t, n, idx = 0;
	const char *cur[40];
	cfg_mode = 0;
	cfg_buf = 1;
	cfg_win = 3;
	cfg_opt = 0;
	setup_config();
	make_long_tokens(0);
	/* token alphabet for deviations: core + more */
	{
		static const char *tl[800];
		int m = 0;
		for (i = 0; i < (int) (sizeof(vi_core) / sizeof(vi_core[0])); i++)
			tl[m++] = vi_core[i];
		for (i = 0; i < (int) (sizeof(vi_more) / sizeof(vi_more[0])); i++)
			tl[m++] = vi_more[i];
		tokens = tl;
		ntokens = m;
	}
	for (s = 0; s < NSESS; s++) {
		for (n = 0; sessions[s][n]; n++)
			;
		if ((idx++ % nv_nshards) == nv_shard)
			run_stream(sessions[s], n, "base session");
		for (i = 0; i < n; i++) {
			/* deletion of token i */
			if ((idx++ % nv_nshards) == nv_shard && !nv_expired_now()) {
				int m = 0;
				for (j = 0; j < n; j++)
					if (j != i)
						cur[m++] = sessions[s][j];
				run_stream(cur, m, "one token deleted");
			}
			for (t = 0; t < (k2 ? ntokens : (int) (sizeof(vi_core) / sizeof(vi_core[0]))); t++) {
				if ((idx++ % nv_nshards) != nv_shard || nv_expired_now())
					continue;
				/* substitution */
				for (j = 0; j < n; j++)
					cur[j] = j == i ? tokens[t] : sessions[s][j];
				run_stream(cur, n, "one token substituted");
				/* insertion before i */
				{
					int m = 0;
					for (j = 0; j < n; j++) {
						if (j == i)
							cur[m++] = tokens[t];
						cur[m++] = sessions[s][j];
					}
					run_stream(cur, m, "one token inserted");
				}
			}
		}
		if (k2 && s < 2) {
			/* all pairs of substitutions from the core alphabet */
			int nc = sizeof(vi_core) / sizeof(vi_core[0]);
			int i2, t2;
			for (i = 0; i < n; i++)
				for (i2 = i + 1; i2 < n; i2++)
					for (t = 0; t < nc; t += 2)
						for (t2 = 1; t2 < nc; t2 += 2) {
							if ((idx++ % nv_nshards) != nv_shard || nv_expired_now())
								continue;
							for (j = 0; j < n; j++)
								cur[j] = j == i ? vi_core[t] : j == i2 ? vi_core[t2] : sessions[s][j];
							run_stream(cur, n, "two tokens substituted");
						}
		}
	}
	/* more tag pushes than the tag stack holds (32), then pops */
	{
		const char *ts[64];
		int m;
		for (n = 31; n <= 43; n += 3) {
			if ((idx++ % nv_nshards) != nv_shard || nv_expired_now())
				continue;
			m = 0;
			for (i = 0; i < n; i++)
				ts[m++] = i % 2 == 0 ? ":ta foo\n" : ":ta alpha\n";
			ts[m++] = ":tn\n";
			ts[m++] = ":po\n";
			ts[m++] = ":po\n";
			ts[m++] = "\x14";
			ts[m++] = ":ta last\n";
			ts[m++] = "\x1d";
			run_stream(ts, m, "more tag pushes than the tag stack holds");
		}
	}
	/* more files than the buffer table holds (16): open 19, walk back through them, edit, delete buffers */
	{
		static char ecmd[19][16];
		const char *ts[64];
		static const char *tails[][7] = {
			{":b\n", ":b 1\n", "dd", ":b -\n", ":b 16\n", ":e g1\n", ":q!\n"},
			{"\x1e", "x", ":e #\n", ":b !\n", ":b +\n", ":e g18\n", ":b\n"},
			{":b ~\n", ":b 17\n", ":b !\n", ":b !\n", ":e g3\n", ":b\n", "u"},
		};
		int v;
		for (i = 0; i < 19; i++)
			snprintf(ecmd[i], sizeof(ecmd[i]), ":e! g%d\n", i + 1);
		for (v = 0; v < 3; v++)
			for (n = 15; n <= 19; n++) {
				int m = 0;
				if ((idx++ % nv_nshards) != nv_shard || nv_expired_now())
					continue;
				ts[m++] = "ifoo" ESC;		/* the first buffer is modified */
				for (i = 0; i < n; i++) {
					ts[m++] = ecmd[i];
					if (i == 7)
						ts[m++] = "ibar" ESC;	/* and one in the middle */
				}
				for (i = 0; i < 7; i++)
					ts[m++] = tails[v][i];
				run_stream(ts, m, "more files than buffer slots");
			}
	}
	nv_stat("stream_executions", stream_runs);
	nv_stat("transitions", stream_runs);
	nv_stat("states", stream_runs);
	nv_stat("evaluations", stream_runs);
}

int main(int argc, char **argv)
{
	int b, w, o;
	const char *replay_cfg = nv_arg(argc, argv, "cfg", NULL);
	nv_init(argc, argv);
	nx_init(argc, argv, 2, 0);
	/* a filter that exits without reading its input would kill the editor with SIGPIPE depending on
	 * timing; that race is outside a deterministic exploration (DESIGN.md section 8) */
	signal(SIGPIPE, SIG_IGN);
	nx_hist_name = hist_name;
	/* in vi mode a/i/c inside :g read one text block per execution from the terminal and may swallow the
	 * quit sequence as text: it is offered again, up to once per line of the largest buffer */
	nx_leaf_retries = 40;
	nx_horizon = atoi(nv_arg(argc, argv, "horizon", "20"));
	make_buffers();
	if (replay_cfg) {
		int m, d = nx_replay_n >= 0 ? 8 : 2, mo = 1;
		sscanf(replay_cfg, "%d,%d,%d,%d,%d", &m, &b, &w, &o, &mo);
		explore_config(m, b, w, o, d, mo);
		return nv_finish();
	}
	/* every single token from every buffer x window x option set (one configuration per shard) */
	/* both tiers: every single token from every buffer x window x option set (one configuration per shard) */
	if (nx_replay_n < 0) {
		int ci = 0;
		nx_shard_div = 1;
		nx_shard_mod = 0;
		for (b = 0; b < NBUFS; b++)
			for (w = 0; w < 4; w++)
				for (o = 0; o < 2; o++)
					if (ci++ % nv_nshards == nv_shard)
						explore_config(0, b, w, o, 1, 1);
		for (b = 0; b < NBUFS; b++)
			for (o = 0; o < 2; o++)
				if (ci++ % nv_nshards == nv_shard)
					explore_config(1, b, 0, o, 1, 1);
		nx_shard_div = nv_nshards;
		nx_shard_mod = nv_shard;
	}
	if (!nv_thorough) {
		/* quick: full vi alphabet to depth 2 on three configurations, ex alphabet to depth 2 on two, deviations k=1 */
		explore_config(0, 1, 0, 0, 2, 1);
		explore_config(0, 3, 2, 1, 2, 2);
		explore_config(0, 0, 1, 0, 2, 2);
		explore_config(1, 1, 0, 0, 2, 1);
		explore_config(1, 0, 0, 1, 2, 2);
		deviation_streams(0);
	} else {
		/* thorough: depth 2 on every buffer x window x option set, depth 3 on the core alphabet, deviations k=2 */
		for (b = 0; b < NBUFS; b++)
			for (w = 0; w < 4; w++)
				for (o = 0; o < 2; o++) {
					if (nv_expired_now())
						break;
					if (b >= 5 && w != 0)	/* the long-word / long-indent buffers: one window size */
						continue;
					explore_config(0, b, w, o, 2, b == 1 && w == 0 ? 1 : 2);
				}
		for (b = 0; b < NBUFS; b++)
			for (o = 0; o < 2; o++)
				if (!nv_expired_now())
					explore_config(1, b, 0, o, 2, 1);
		explore_config(0, 1, 3, 0, 3, 0);
		explore_config(0, 3, 3, 1, 3, 0);
		explore_config(0, 0, 1, 0, 3, 0);
		deviation_streams(1);
	}
	nv_stat("distinct_nontrivial", 0);
	return nv_finish();
}
