# writes /verif/MANIFEST.json from the table below and the set of checks that exist
import json, os
import nv, checks

LEVEL = {
 "C01": ("model_checking", "Bounded exhaustive enumeration of file shapes (line lengths straddling the 1 KiB read chunk, the 4 KiB write batch and the 128-byte string-buffer steps; line counts straddling the 512/1024/2048 line-table sizes; all bytes 1..255; all ranges of small files; all previous target sizes) with all placements of <=k short reads/writes, on the real lbuf_rd/lbuf_wr over an in-memory file, plus the :e/:w path of the real main(); compared with a split/join reference. Right level because the property is a pure function of (file, range, environment answers) and the code's case splits are all at small named sizes.", "3 C01"),
 "C02": ("model_checking", "Explicit-state search (fork-snapshot, state matching) over all interleavings of modify/undo/redo/write/partial write/write elsewhere/reload/switch commands on the real editor over an in-memory file system; in every reached state the text of every buffer is compared with its file and quit/edit/buffer-switch are probed in throw-away twins.", "3 C02"),
 "C03": ("model_checking", "All placements of <=k faults (error returns, short counts) over the open/write/close call sequence of every write command form, for buffer shapes spanning 0/1/many write batches, plus the full target existence/identity/mtime matrix, on the real editor over an in-memory file system with a virtual clock.", "3 C03"),
 "C04": ("model_checking", "All operation sequences (every splice on buffers of <=4 lines, new command, undo, redo, mark saved) up to a depth at the real line-buffer interface against a snapshot-stack reference, then breadth-first search with state matching deeper; plus editor-level exploration of compound commands with one-step undo compared against harness-taken snapshots.", "3 C04"),
 "C05": ("model_checking", "All token sequences up to a depth over a vi/ex token alphabet chosen from the code's branches, plus all single and double deviations (substitute/delete/insert a token) of base sessions, executed on an AddressSanitizer build of the real editor with a per-execution horizon; initial configurations cover empty/ASCII/long/UTF-8 buffers, window sizes from 2x2, option settings.", "3 C05"),
 "C06": ("model_checking", "All (command, address) pairs from all small initial configurations (buffer size x current line x mark placement), and all short scripts over a reduced alphabet, on the real ex mode, in lock-step with a reference line editor.", "3 C06"),
 "C07": ("model_checking", "All single motions (with counts) from every start position of a family of small buffers, and all short motion sequences over a core alphabet, on the real vi mode, compared with reference motion semantics and cursor-validity invariants in every state.", "3 C07"),
 "C08": ("model_checking", "All operator x motion x count x register combinations from every cursor position of small buffers, and short command sequences, on the real vi mode; compositional oracle (span from the motion run in a twin, then remove/transform exactly that span), differential checks of derived commands, register/put round trips.", "3 C08"),
 "C09": ("model_checking", "Exhaustive differential twins: for every change command, prefix and state reached by <=1 preceding command, '.' vs retyping, 'N.' vs retyping N times, '@r' vs typing, compared on text, cursor and all registers.", "3 C09"),
 "C10": ("model_checking", "All pattern ASTs up to a size over an atom/constructor signature x all subject lines up to a length over a small alphabet x all flag combinations, on the real pattern-set matcher, against two independent reference semantics (all-spans relation; leftmost greedy first-parse with groups).", "3 C10"),
 "C11": ("model_checking", "Every string up to a length over a 24-symbol metacharacter/byte alphabet, plus bound/group-count families, compiled and matched on an AddressSanitizer build; program size compared exactly with its allocation; offsets checked for range and character boundaries.", "3 C11"),
 "C12": ("model_checking", "All anchor/word-boundary combinations x all literals up to a length x all lines up to a length x all flags: single-pattern matcher vs pattern-set matcher on the same input; classifier checked on every short string over the metacharacter alphabet.", "3 C12"),
 "C13": ("model_checking", "All (pattern, buffer, cursor, direction) combinations up to small sizes on the real line-buffer search against a whole-line reference, plus all short sequences of / ? n N ^A with counts on the real vi mode.", "3 C13"),
 "C14": ("model_checking", "All (pattern, replacement, g flag, line) combinations up to small sizes through the real :s command against the substitute rule stated in the property.", "3 C14"),
 "C15": ("model_checking", "All (pattern, negation, range, command list, buffer) combinations up to small sizes through the real :g command against a line-identity reference, followed by one undo.", "3 C15"),
 "C16": ("model_checking", "Exhaustive over every Unicode scalar value and over every string up to a length over a 1..4-byte alphabet at the helper interface; editor-level validity invariant on every state reached by the C08 exploration.", "3 C16"),
 "C17": ("model_checking", "Exhaustive over every code point for the width classes (bisection vs linear scan of the same tables) and over every line up to a length over a width-class alphabet x order x textdirection x linelimit for tiling, round trip and neighbour properties.", "3 C17"),
 "C18": ("model_checking", "Exhaustive over every line up to a length over a direction-class alphabet x textdirection x order, on an AddressSanitizer build, against a hand-written run scanner; every joining-table entry in every joining context against independent Unicode decomposition data.", "3 C18"),
 "C19": ("model_checking", "All command sequences up to a depth over a motion/scroll/edit/window alphabet on the real vi mode whose terminal output is interpreted by an in-process terminal emulator; in every idle state the grid is compared with a reference rendering of a contiguous window and with a forced full repaint in a twin.", "3 C19"),
 "C20": ("model_checking", "Explicit-state search with state matching over open/switch/edit/undo/write/delete-buffer commands on the real ex mode with up to 16 files; after every operation every buffer's text, position, history shape and dirty flag is compared with a per-buffer reference.", "3 C20"),
}

NOTE = {
 "C16": "trusts the harness's own UTF-8 encoder/segmenter; bounded by string length and alphabet (evidence file carries the measured bounds)",
}

TECH = {
 "C01": "bounded exhaustive enumeration of inputs and environment answers (deviation-bounded) against a reference model",
 "C02": "explicit-state model checking of the implementation (fork-snapshot search with state hashing, twin probes)",
 "C03": "exhaustive fault-placement enumeration over the syscall sequence (deviation-bounded), in-memory VFS",
 "C04": "exhaustive operation-sequence enumeration / BFS with canonical state matching against a reference model",
 "C05": "bounded exhaustive command-stream enumeration (depth- and deviation-bounded) under AddressSanitizer",
 "C06": "bounded exhaustive script enumeration in lock-step with a reference model",
 "C07": "bounded exhaustive enumeration of motions/sequences from all start states against a reference model",
 "C08": "bounded exhaustive enumeration with compositional and differential (twin) oracles",
 "C09": "exhaustive differential twin exploration",
 "C10": "bounded exhaustive enumeration of (pattern AST, subject, flags) against reference semantics",
 "C11": "bounded exhaustive enumeration of pattern strings under AddressSanitizer with exact allocation check",
 "C12": "bounded exhaustive differential enumeration (fast path vs general engine)",
 "C13": "bounded exhaustive enumeration against a whole-line reference search",
 "C14": "bounded exhaustive enumeration against the substitute rule",
 "C15": "bounded exhaustive enumeration against a line-identity reference",
 "C16": "exhaustive enumeration of all scalar values and all short strings against a reference segmenter",
 "C17": "exhaustive enumeration of code points and short lines x options against layout invariants",
 "C18": "exhaustive enumeration of short lines x options against a reference run scanner, under AddressSanitizer",
 "C19": "bounded exhaustive command-sequence exploration with an in-process terminal emulator and twin repaint",
 "C20": "explicit-state model checking of the implementation with per-buffer reference",
}

NA_REASON = "check not built yet (construction in progress; see DESIGN.md section 10) - not claimed until it runs end to end"

def write():
    props = [json.loads(l)["id"] for l in open(os.path.join(nv.VERIF, "properties.jsonl"))]
    hooks_commits = []
    try:
        import subprocess
        out = subprocess.run(["git", "-C", "/repo", "log", "--format=%H %s"], stdout=subprocess.PIPE).stdout.decode()
        hooks_commits = [l.split()[0] for l in out.splitlines() if "verif hook" in l]
    except Exception:
        pass
    m = {
        "version": 1,
        "setup_cmd": "./run setup",
        "hooks": {
            "guard": "NEATVI_VERIF",
            "enable": "every check compiles /repo/*.c itself with -DNEATVI_VERIF (lib/nv.py build_objs); the only hook is the depth-limit counter nv_re_depthhit in regex.c",
            "baseline_off_cmd": "make -C /repo clean all && cd /repo && ./test.sh",
            "source_commits": hooks_commits,
            "add_only": True,
        },
        "engines": [{
            "name": "nv-explore", "path": "/verif/run",
            "serves_properties": [p for p in props if p in checks.CHECKS],
            "kind_free_text": "hand-written bounded exhaustive explorers over the real neatvi objects: enumeration harnesses at library interfaces, and a fork-snapshot explorer driven from inside the wrapped read()/getc() of the real main() (link-time --wrap of libc, in-memory VFS, fault plans, terminal emulator)",
        }],
        "checks": [],
        "notes": "All checks: ./run <ID> quick|thorough from /verif; they rebuild from /repo's working tree (override with NV_SRC). Exit 1 = a violation was observed (a crash, sanitizer report or hang of the code under test counts as one). Exit 2 = harness/infrastructure error only, never reported as a violation. KNOWN_FINDINGS.txt lists recorded and fixed defects.",
        "not_applicable": [],
    }
    for p in props:
        if p in checks.CHECKS:
            cat, text, ref = LEVEL[p]
            m["checks"].append({
                "property_id": p,
                "quick_cmd": "./run %s quick" % p,
                "thorough_cmd": "./run %s thorough" % p,
                "evidence_file": "/verif/evidence/%s.json" % p,
                "replay_cmd_template": "./run replay {path}",
                "engine": "nv-explore",
                "level_claimed": {"category": cat, "text": text, "design_ref": "DESIGN.md section " + ref},
                "level_note": NOTE.get(p, "bounded: see the evidence file for the bounds completed; trusts the harness reference model and the libc wrappers"),
                "technique": TECH[p],
            })
        else:
            m["not_applicable"].append({"property_id": p, "reason": NA_REASON})
    with open(os.path.join(nv.VERIF, "MANIFEST.json"), "w") as f:
        json.dump(m, f, indent=1)
        f.write("\n")

if __name__ == "__main__":
    write()
