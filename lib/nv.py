# Common driver code for the neatvi bounded-exhaustive checks.
# Builds $NV_SRC (default /repo, the current working tree) into /verif/build/<variant>-<hash>/,
# runs harness binaries (optionally sharded over the cores), merges their result lines,
# applies KNOWN_FINDINGS.txt and writes evidence/<ID>.json.
import fcntl, hashlib, json, os, shutil, signal, subprocess, sys, time, glob

VERIF = os.path.dirname(os.path.dirname(os.path.abspath(__file__)))
NV_SRC = os.environ.get("NV_SRC", "/repo")
BUILD = os.path.join(VERIF, "build")
OUT = os.path.join(VERIF, "out")
NCPU = os.cpu_count() or 4

OBJS = "vi ex lbuf mot sbuf ren dir syn reg led uc term rset rstr regex cmd tag conf".split()

BASE_FLAGS = ["-g", "-fno-builtin", "-U_FORTIFY_SOURCE", "-DNEATVI_VERIF", "-w"]
VARIANTS = {
    "plain": ["-O1"] + BASE_FLAGS,
    "asan": ["-O1"] + BASE_FLAGS + ["-fsanitize=address", "-fno-omit-frame-pointer",
                                   "-fsanitize=bounds", "-fno-sanitize-recover=bounds"],
}


class HarnessError(Exception):
    pass


def sh(cmd, **kw):
    return subprocess.run(cmd, **kw)


def _hash_files(paths, extra=""):
    h = hashlib.sha1()
    h.update(extra.encode())
    for p in sorted(paths):
        h.update(os.path.basename(p).encode())
        with open(p, "rb") as f:
            h.update(f.read())
    return h.hexdigest()[:12]


def src_files():
    return sorted(glob.glob(os.path.join(NV_SRC, "*.c")) + glob.glob(os.path.join(NV_SRC, "*.h")))


def src_hash():
    return _hash_files(src_files(), NV_SRC)


class Lock:
    def __init__(self, path):
        self.path = path

    def __enter__(self):
        os.makedirs(os.path.dirname(self.path), exist_ok=True)
        self.f = open(self.path, "w")
        fcntl.flock(self.f, fcntl.LOCK_EX)

    def __exit__(self, *a):
        fcntl.flock(self.f, fcntl.LOCK_UN)
        self.f.close()


def _prune(variant, keep):
    # remove stale build dirs of this variant (disk is limited); never one that is in use (locked)
    for d in glob.glob(os.path.join(BUILD, variant + "-*")):
        if d == keep or not os.path.isdir(d):
            continue
        try:
            age = time.time() - os.path.getmtime(d)
            if age > 3600:
                shutil.rmtree(d, ignore_errors=True)
        except OSError:
            pass


def build_objs(variant):
    """Compile the repository sources for a variant; returns the build directory."""
    flags = VARIANTS[variant]
    hs = _hash_files(src_files(), NV_SRC + " ".join(flags))
    d = os.path.join(BUILD, "%s-%s" % (variant, hs))
    with Lock(os.path.join(BUILD, ".lock-" + variant)):
        if os.path.exists(os.path.join(d, ".done")):
            os.utime(d, None)
            return d
        os.makedirs(d, exist_ok=True)
        open(os.path.join(d, ".src"), "w").write(NV_SRC)
        procs = []
        for o in OBJS:
            cmd = ["gcc", "-c"] + flags + ["-I", NV_SRC]
            if o == "vi":
                cmd += ["-Dmain=nv_main"]
            cmd += [os.path.join(NV_SRC, o + ".c"), "-o", os.path.join(d, o + ".o")]
            procs.append((o, subprocess.Popen(cmd, stdout=subprocess.PIPE, stderr=subprocess.STDOUT)))
        for o, p in procs:
            out, _ = p.communicate()
            if p.returncode:
                raise HarnessError("build of %s.c (%s) failed:\n%s" % (o, variant, out.decode(errors="replace")))
        open(os.path.join(d, ".done"), "w").close()
        _prune(variant, d)
    return d


def build_stock():
    """Build the repository with its own Makefile, guard off, in a scratch copy under build/."""
    hs = _hash_files(src_files() + [os.path.join(NV_SRC, "Makefile")], NV_SRC + "stock")
    d = os.path.join(BUILD, "stock-" + hs)
    with Lock(os.path.join(BUILD, ".lock-stock")):
        if os.path.exists(os.path.join(d, "vi")) and os.path.exists(os.path.join(d, ".done")):
            os.utime(d, None)
            return os.path.join(d, "vi")
        os.makedirs(d, exist_ok=True)
        for p in src_files() + [os.path.join(NV_SRC, "Makefile")]:
            shutil.copy(p, d)
        open(os.path.join(d, ".src"), "w").write(NV_SRC)
        r = sh(["make", "-C", d, "vi"], stdout=subprocess.PIPE, stderr=subprocess.STDOUT)
        if r.returncode:
            raise HarnessError("stock build failed:\n" + r.stdout.decode(errors="replace"))
        for f in glob.glob(os.path.join(d, "*.[cho]")) + [os.path.join(d, "Makefile")]:
            os.remove(f)
        open(os.path.join(d, ".done"), "w").close()
        _prune("stock", d)
    return os.path.join(d, "vi")


def build_stock_asan():
    """Repository Makefile with only CFLAGS/LDFLAGS overridden to add ASan (guard off)."""
    hs = _hash_files(src_files() + [os.path.join(NV_SRC, "Makefile")], NV_SRC + "stockasan")
    d = os.path.join(BUILD, "stockasan-" + hs)
    with Lock(os.path.join(BUILD, ".lock-stockasan")):
        if os.path.exists(os.path.join(d, "vi")) and os.path.exists(os.path.join(d, ".done")):
            os.utime(d, None)
            return os.path.join(d, "vi")
        os.makedirs(d, exist_ok=True)
        for p in src_files() + [os.path.join(NV_SRC, "Makefile")]:
            shutil.copy(p, d)
        open(os.path.join(d, ".src"), "w").write(NV_SRC)
        r = sh(["make", "-C", d, "vi", "CFLAGS=-O1 -g -fsanitize=address -fno-omit-frame-pointer -w",
                "LDFLAGS=-fsanitize=address"], stdout=subprocess.PIPE, stderr=subprocess.STDOUT)
        if r.returncode:
            raise HarnessError("stock asan build failed:\n" + r.stdout.decode(errors="replace"))
        for f in glob.glob(os.path.join(d, "*.[cho]")) + [os.path.join(d, "Makefile")]:
            os.remove(f)
        open(os.path.join(d, ".done"), "w").close()
        _prune("stockasan", d)
    return os.path.join(d, "vi")


def build_harness(name, variant, sources, replace=(), wraps=(), extra_flags=(), libs=()):
    """Link harness `name` from /verif/harness/<sources> + repository objects.
    replace: repository objects that a harness TU re-compiles itself by #include (peeking at statics).
    wraps: symbols redirected with -Wl,--wrap."""
    od = build_objs(variant)
    flags = VARIANTS[variant]
    hsrc = [os.path.join(VERIF, "harness", s) for s in sources]
    hdrs = glob.glob(os.path.join(VERIF, "harness", "*.h")) + glob.glob(os.path.join(VERIF, "harness", "*.inc"))
    hs = _hash_files(hsrc + hdrs, " ".join(list(replace) + list(wraps) + list(extra_flags) + list(libs)))
    bd = os.path.join(od, "bin")
    exe = os.path.join(bd, "%s-%s" % (name, hs))
    with Lock(os.path.join(BUILD, ".lock-h-" + name + "-" + variant)):
        if os.path.exists(exe):
            return exe
        os.makedirs(bd, exist_ok=True)
        for old in glob.glob(os.path.join(bd, name + "-*")):
            os.remove(old)
        objs = [os.path.join(od, o + ".o") for o in OBJS if o not in replace]
        cmd = ["gcc"] + flags + list(extra_flags) + ["-I", NV_SRC, "-I", os.path.join(VERIF, "harness"),
                                                    '-DNV_SRC="%s"' % NV_SRC]
        cmd += hsrc + objs
        for w in wraps:
            cmd.append("-Wl,--wrap=" + w)
        cmd += ["-o", exe + ".tmp"] + list(libs)
        r = sh(cmd, stdout=subprocess.PIPE, stderr=subprocess.STDOUT)
        if r.returncode:
            raise HarnessError("link of harness %s (%s) failed:\n%s" % (name, variant, r.stdout.decode(errors="replace")))
        os.rename(exe + ".tmp", exe)
    return exe


# ---------------------------------------------------------------------------------------------
# result protocol: harnesses write lines to their out= file
#   STAT <key> <int>          summed over shards (key "max:<k>" takes the maximum, "min:<k>" the minimum)
#   SAMPLE <text>             an explored case, written out
#   VIOL <slug>\t<text>       violation (replay text follows the slug)
#   DEV <slug>\t<text>        the specific deviant result wired to known finding <slug>
#   HIST <class> <int>        outcome histogram
#   NOTE <text>
#   ERR <text>                harness error (exit 2)
#   DONE                      shard ran to its end
# ---------------------------------------------------------------------------------------------

class Result:
    def __init__(self):
        self.stats = {}
        self.samples = []
        self.viols = []
        self.devs = {}
        self.hist = {}
        self.notes = []
        self.errs = []
        self.done = 0
        self.shards = 0
        self.traces = []

    def merge_file(self, path):
        self.shards += 1
        if not os.path.exists(path):
            self.errs.append("missing result file " + path)
            return
        with open(path, "r", errors="replace") as f:
            for ln in f:
                ln = ln.rstrip("\n")
                if ln.startswith("STAT "):
                    _, k, v = ln.split(" ", 2)
                    v = int(v)
                    if k.startswith("max:"):
                        self.stats[k[4:]] = max(self.stats.get(k[4:], v), v)
                    elif k.startswith("min:"):
                        self.stats[k[4:]] = min(self.stats.get(k[4:], v), v)
                    else:
                        self.stats[k] = self.stats.get(k, 0) + v
                elif ln.startswith("SAMPLE "):
                    if len(self.samples) < 12:
                        self.samples.append(ln[7:])
                elif ln.startswith("VIOL "):
                    slug, _, txt = ln[5:].partition("\t")
                    self.viols.append((slug, txt))
                elif ln.startswith("DEV "):
                    slug, _, txt = ln[4:].partition("\t")
                    self.devs.setdefault(slug, []).append(txt)
                elif ln.startswith("HIST "):
                    _, k, v = ln.split(" ", 2)
                    self.hist[k] = self.hist.get(k, 0) + int(v)
                elif ln.startswith("TRACE "):
                    self.traces.append(ln[6:])
                elif ln.startswith("NOTE "):
                    if len(self.notes) < 40:
                        self.notes.append(ln[5:])
                elif ln.startswith("ERR "):
                    self.errs.append(ln[4:])
                elif ln == "DONE":
                    self.done += 1


def run_shards(exe, args, nshards, timeout, env=None, res=None, tag="h"):
    """Run `exe args shard=i nshards=n out=<file>` for all shards in parallel; merge results."""
    res = res or Result()
    os.makedirs(OUT, exist_ok=True)
    rd = os.path.join(OUT, "res.%d.%s" % (os.getpid(), tag))
    os.makedirs(rd, exist_ok=True)
    e = dict(os.environ)
    e.update({"ASAN_OPTIONS": "detect_leaks=0:abort_on_error=1:allocator_may_return_null=1:handle_abort=0",
              "LC_ALL": "C", "EXINIT": "", "TAGPATH": "/nonexistent/tags"})
    if env:
        e.update(env)
    procs = []
    t0 = time.time()
    for i in range(nshards):
        of = os.path.join(rd, "r%d" % i)
        cmd = [exe] + list(args) + ["shard=%d" % i, "nshards=%d" % nshards, "out=" + of]
        lf = open(of + ".log", "w")
        procs.append((i, of, subprocess.Popen(cmd, stdout=lf, stderr=subprocess.STDOUT, env=e, cwd=rd,
                                              stdin=subprocess.DEVNULL, start_new_session=True), lf))
    for i, of, p, lf in procs:
        left = max(1, timeout - (time.time() - t0))
        try:
            rc = p.wait(timeout=left)
        except subprocess.TimeoutExpired:
            rc = -999
        # sweep the whole process group: forked explorer children must not outlive their shard
        try:
            os.killpg(p.pid, 9)
        except (ProcessLookupError, PermissionError):
            pass
        p.wait()
        lf.close()
        res.merge_file(of)
        if rc != 0:
            try:
                log = open(of + ".log", errors="replace").read()[-3000:]
            except OSError:
                log = ""
            fatal = rc in (-4, -6, -7, -8, -11) or "AddressSanitizer" in log or "runtime error:" in log
            if rc == -999:
                res.errs.append("shard %d of %s exceeded its hard timeout (%ds)" % (i, os.path.basename(exe), timeout))
            elif fatal:
                # the harness process itself runs the code under test (start-up, set-up, non-forking loops):
                # its death by a fatal signal or a sanitizer report is an outcome of that code, not of the harness
                k = log.find("ERROR:")
                if k < 0:
                    k = log.find("runtime error:")
                    k = log.rfind("\n", 0, k) + 1 if k >= 0 else -1
                head = " ".join((log[k:] if k >= 0 else log[-600:]).split())[:700]
                res.viols.append(("crash", "kind=fatal the process running the code under test died (exit %d) outside a per-case "
                                  "child, i.e. during start-up, set-up or a non-forking loop: %s" % (rc, head)))
                res.stats["deadline_hit"] = res.stats.get("deadline_hit", 0) + 1
            else:
                res.errs.append("shard %d of %s exited with %d: %s" % (i, os.path.basename(exe), rc, log))
    shutil.rmtree(rd, ignore_errors=True)
    return res


# ---------------------------------------------------------------------------------------------
# conformance: replay explored histories on the stock binary (repository Makefile, guard off)
# ---------------------------------------------------------------------------------------------

def _replay_one(args):
    stock, tr, d = args
    t = json.loads(tr)
    os.makedirs(d, exist_ok=True)
    for name, hx in t["files"].items():
        os.makedirs(os.path.dirname(os.path.join(d, name)), exist_ok=True)
        with open(os.path.join(d, name), "wb") as f:
            f.write(bytes.fromhex(hx))
    # the in-memory file system of the harness has no directories: the ones named by expected files exist
    for name in t["expect_files"]:
        os.makedirs(os.path.dirname(os.path.join(d, name)), exist_ok=True)
    env = {"PATH": os.environ.get("PATH", "/usr/bin:/bin"), "LC_ALL": "C", "TERM": "dumb", "TAGPATH": "/nonexistent/tags",
           "HOME": d}
    env.update(t["env"])
    try:
        p = subprocess.run([stock] + t["argv"], input=bytes.fromhex(t["input"]), stdout=subprocess.PIPE,
                           stderr=subprocess.STDOUT, cwd=d, env=env, timeout=20)
    except subprocess.TimeoutExpired:
        return "stock binary did not finish within 20 s: argv=%s input=%r" % (t["argv"], bytes.fromhex(t["input"]))
    for name, hx in t["expect_files"].items():
        want = bytes.fromhex(hx)
        path = os.path.join(d, name)
        got = open(path, "rb").read() if os.path.exists(path) else None
        if got != want:
            return "file %s after argv=%s input=%r: stock binary %r, harness %r" % (name, t["argv"], bytes.fromhex(t["input"]), got, want)
    for name in os.listdir(d):
        if name not in t["expect_files"] and os.path.isfile(os.path.join(d, name)):
            return "stock binary left a file %s that the harness run did not (argv=%s input=%r)" % (name, t["argv"], bytes.fromhex(t["input"]))
    if "expect_stdout" in t:
        want = bytes.fromhex(t["expect_stdout"])
        if p.stdout != want:
            return "ex output after argv=%s input=%r: stock binary %r, harness %r" % (t["argv"], bytes.fromhex(t["input"]), p.stdout, want)
    shutil.rmtree(d, ignore_errors=True)
    return None


def conformance(res, limit=400):
    """Replay the emitted traces on the stock binary; a disagreement is a harness error, not a violation."""
    from concurrent.futures import ThreadPoolExecutor
    traces = res.traces[:limit]
    if not traces:
        return
    stock = build_stock()
    base = os.path.join(BUILD, "run.%d" % os.getpid())
    jobs = [(stock, tr, os.path.join(base, "t%d" % i)) for i, tr in enumerate(traces)]
    with ThreadPoolExecutor(max_workers=NCPU) as ex:
        outs = list(ex.map(_replay_one, jobs))
    bad = [o for o in outs if o]
    res.stats["traces_validated"] = res.stats.get("traces_validated", 0) + len(outs) - len(bad)
    for o in bad[:5]:
        res.errs.append("conformance: the harness does not represent the stock binary: " + o[:1500])
    shutil.rmtree(base, ignore_errors=True)


# ---------------------------------------------------------------------------------------------
# known findings
# ---------------------------------------------------------------------------------------------

def load_known():
    known, fixed = {}, []
    p = os.path.join(VERIF, "KNOWN_FINDINGS.txt")
    if os.path.exists(p):
        for ln in open(p):
            ln = ln.strip()
            if ln.startswith("known:"):
                f = dict(x.split("=", 1) for x in ln[6:].split() if "=" in x and x.split("=")[0] in ("property", "id"))
                known[(f.get("property"), f.get("id"))] = ln[6:].strip()
            elif ln.startswith("fixed:"):
                fixed.append(ln)
    return known, fixed


def finish(pid, tier, t0, res, cov_extra, assumptions, level="model_checking"):
    """Apply known findings, print verdict lines, write evidence, return the exit code."""
    known, _ = load_known()
    os.makedirs(os.path.join(OUT, "replays"), exist_ok=True)
    viol_lines = []
    known_hit = {}
    for slug, txts in sorted(res.devs.items()):
        if (pid, slug) in known:
            known_hit[slug] = len(txts)
            print("KNOWN-FINDING: property=%s id=%s %s (%d cases, e.g. %s)" %
                  (pid, slug, known[(pid, slug)].split(" ", 2)[-1] if known[(pid, slug)].count(" ") >= 2 else "",
                   len(txts), txts[0][:200]))
        else:
            for t in txts[:5]:
                res.viols.append((slug, t))
    seen = set()
    nviol = len(res.viols)
    for slug, txt in res.viols:
        if slug in seen and len(seen) > 0 and sum(1 for s in viol_lines) >= 20:
            continue
        seen.add(slug)
        h = hashlib.sha1((slug + txt).encode()).hexdigest()[:10]
        rp = os.path.join(OUT, "replays", "%s-%s.replay" % (pid, h))
        with open(rp, "w") as f:
            f.write("property=%s\nslug=%s\ntier=%s\nsrc=%s\n%s\n" % (pid, slug, tier, NV_SRC, txt.replace("\\n", "\n")))
        if len(viol_lines) < 20:
            viol_lines.append("VIOLATION property=%s replay=%s" % (pid, rp))
            print("  [%s] %s" % (slug, txt[:600]))
    for ln in viol_lines:
        print(ln)
    st = res.stats
    cov = {
        "states": int(st.get("states", st.get("evaluations", 0))),
        "transitions": int(st.get("transitions", st.get("evaluations", 0))),
        "traces_validated_against_impl": int(st.get("traces_validated", 0)),
        "samples": res.samples[:12] or ["(none)"],
        "evaluations": int(st.get("evaluations", st.get("transitions", 0))),
        "distinct_nontrivial": int(st.get("distinct_nontrivial", 0)),
        "exhaustive": bool(res.done == res.shards and not st.get("deadline_hit", 0) and not res.errs),
        "outcome_histogram": res.hist,
        "known_findings_hit": known_hit,
        "counters": {k: v for k, v in sorted(st.items())},
        "notes": res.notes,
    }
    cov.update(cov_extra or {})
    ev = {
        "property_id": pid, "tier": tier, "seed": int(os.environ.get("VERIF_SEED", "0") or 0),
        "level": level, "coverage": cov, "assumptions": assumptions,
        "wall_s": round(time.time() - t0, 2), "violations": nviol,
    }
    # NV_EVIDENCE_DIR: used by the selftests (mutants, seeded changes) so that they do not overwrite evidence/
    evdir = os.environ.get("NV_EVIDENCE_DIR") or os.path.join(VERIF, "evidence")
    os.makedirs(evdir, exist_ok=True)
    with open(os.path.join(evdir, pid + ".json"), "w") as f:
        json.dump(ev, f, indent=1, sort_keys=True)
        f.write("\n")
    if res.errs and not nviol:
        for e in res.errs[:10]:
            print("HARNESS-ERROR: " + e[:3000])
        return 2
    for e in res.errs[:5]:
        # violations were observed and have replay artefacts; the run also had trouble of its own (typically a
        # consequence: shards slowed down by crash after crash)
        print("HARNESS-NOTE: " + " ".join(e.split())[:400])
    print("%s %s: states=%d transitions=%d validated=%d distinct_nontrivial=%d exhaustive=%s violations=%d wall=%.1fs" %
          (pid, tier, cov["states"], cov["transitions"], cov["traces_validated_against_impl"],
           cov["distinct_nontrivial"], cov["exhaustive"], nviol, time.time() - t0))
    return 1 if nviol else 0
