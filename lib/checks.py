# per-property check definitions: which harnesses run, with which bounds, and what the evidence says
import os, sys, time
import nv

CHECKS = {}

def check(pid):
    def deco(f):
        CHECKS[pid] = f
        return f
    return deco

QUICK_DEADLINE = 150
THOROUGH_DEADLINE = 900

def dl(tier):
    return THOROUGH_DEADLINE if tier == "thorough" else QUICK_DEADLINE


@check("C16")
def c16(pid, tier, t0):
    exe = nv.build_harness("c16_uc", "plain", ["c16_uc.c", "peek_regex.c"], replace=["regex"])
    res = nv.run_shards(exe, ["tier=" + tier, "deadline=%d" % dl(tier)], nv.NCPU, dl(tier) + 60)
    return nv.finish(pid, tier, t0, res, {
        "rule": "every Unicode scalar value U+0001..U+10FFFF (minus surrogates) embedded between neighbours of 1..4 bytes; "
                "every string of <= maxlen characters over {a, U+00E9, U+20AC, U+1F600, U+0301, newline}; "
                "non-trivial = string containing a multi-byte character (scalars: all)",
        "alphabet": ["a", "U+00E9", "U+20AC", "U+1F600", "U+0301", "\\n"],
        "depth_bound": res.stats.get("maxlen"),
        "explanation": "uc_len/uc_code/uc_end/uc_next/uc_prev/uc_beg/uc_slen/uc_chr/uc_off/uc_sub/uc_chop/uc_dup/uc_cat and regex.c's "
                       "private uc_len/uc_dec compared with an independent encoder/segmenter on every enumerated input",
    }, ["character arithmetic on text that is not valid UTF-8 is outside the property",
        "uc_off is compared at character boundaries only",
        "the editor-level clause (edits keep text valid UTF-8) is decided by the C08 exploration, which validates every line of every reached state"])


def replay(path):
    print("replay artefact:")
    print(open(path).read())
    return 0
