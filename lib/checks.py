# per-property check definitions: which harnesses run, with which bounds, and what the evidence says
import os, sys, time
import nv

CHECKS = {}

def check(pid):
    def deco(f):
        CHECKS[pid] = f
        return f
    return deco

QUICK_DEADLINE = 150
THOROUGH_DEADLINE = 900

def dl(tier):
    return THOROUGH_DEADLINE if tier == "thorough" else QUICK_DEADLINE


@check("C16")
def c16(pid, tier, t0):
    exe = nv.build_harness("c16_uc", "plain", ["c16_uc.c", "peek_regex.c"], replace=["regex"])
    res = nv.run_shards(exe, ["tier=" + tier, "deadline=%d" % dl(tier)], nv.NCPU, dl(tier) + 60)
    # (c) editor level: the C08 exploration on the multi-byte buffers; only its UTF-8 validity invariant counts here
    exe2 = nv.build_harness("c08_operators", "plain", ["c08_operators.c"], wraps=WRAPS)
    r2 = nv.run_shards(exe2, ["tier=" + tier, "deadline=%d" % dl(tier), "only=12"], nv.NCPU, dl(tier) + 120, tag="e")
    res.viols += [v for v in r2.viols if v[0].startswith("c16")]
    res.errs += r2.errs
    res.shards += r2.shards
    res.done += r2.done
    res.stats["editor_states_validated"] = r2.stats.get("states", 0)
    res.stats["transitions"] = res.stats.get("transitions", 0) + r2.stats.get("transitions", 0)
    res.stats["states"] = res.stats.get("states", 0) + r2.stats.get("states", 0)
    if r2.stats.get("deadline_hit"):
        res.stats["deadline_hit"] = 1
    # (d) :s on multi-byte lines: the C14 enumeration, of which only the UTF-8 validity invariant counts here
    exe3 = nv.build_harness("c14_subst", "asan", ["c14_subst.c"], wraps=WRAPS)
    r3 = nv.run_shards(exe3, ["tier=" + tier, "deadline=%d" % dl(tier)], nv.NCPU, dl(tier) + 120, tag="s")
    res.viols += [v for v in r3.viols if v[0].startswith("c16")]
    res.errs += r3.errs
    res.shards += r3.shards
    res.done += r3.done
    res.stats["substitutions_validated"] = r3.stats.get("states", 0)
    res.stats["transitions"] = res.stats.get("transitions", 0) + r3.stats.get("transitions", 0)
    if r3.stats.get("deadline_hit"):
        res.stats["deadline_hit"] = 1
    return nv.finish(pid, tier, t0, res, {
        "rule": "every Unicode scalar value U+0001..U+10FFFF (minus surrogates) embedded between neighbours of 1..4 bytes; "
                "every string of <= maxlen characters over {a, U+00E9, U+20AC, U+1F600, U+0301, newline}; "
                "non-trivial = string containing a multi-byte character (scalars: all)",
        "alphabet": ["a", "U+00E9", "U+20AC", "U+1F600", "U+0301", "\\n"],
        "depth_bound": res.stats.get("maxlen"),
        "explanation": "uc_len/uc_code/uc_end/uc_next/uc_prev/uc_beg/uc_slen/uc_chr/uc_off/uc_sub/uc_chop/uc_dup/uc_cat and regex.c's "
                       "private uc_len/uc_dec compared with an independent encoder/segmenter on every enumerated input",
    }, ["character arithmetic on text that is not valid UTF-8 is outside the property",
        "uc_off is compared at character boundaries only",
        "the editor-level clause (edits keep text valid UTF-8) is decided by running the C08 exploration on its multi-byte buffers (every line of every reached state is validated) and the C14 enumeration of substitutions (every result is validated)"])


@check("C17")
def c17(pid, tier, t0):
    exe = nv.build_harness("c17_ren", "plain", ["c17_ren.c", "peek_uc.c"], replace=["uc"])
    res = nv.run_shards(exe, ["tier=" + tier, "deadline=%d" % dl(tier)], nv.NCPU, dl(tier) + 60)
    # (c) editor level: h / l in vi mode go to the character displayed immediately to the left / right, also with
    # reordering switched off in mirrored lines - the C19 exploration of that configuration, of which only the
    # visual-motion oracle counts here
    exe2 = nv.build_harness("c19_screen", "plain", ["c19_screen.c"], wraps=WRAPS)
    for cfg in ("12,8,40,0,0,1,2", "12,8,40,0,1,1,1", "40,8,40,1,0,0,0"):
        r2 = nv.run_shards(exe2, ["tier=" + tier, "deadline=%d" % dl(tier), "cfg=" + cfg, "depth=2"], nv.NCPU, dl(tier) + 120, tag="v")
        res.viols += [("c17-visual-motion", v[1]) for v in r2.viols if "moved the terminal cursor" in v[1]]
        res.errs += r2.errs
        res.shards += r2.shards
        res.done += r2.done
        res.stats["editor_states_validated"] = res.stats.get("editor_states_validated", 0) + r2.stats.get("states", 0)
        if r2.stats.get("deadline_hit"):
            res.stats["deadline_hit"] = 1
    return nv.finish(pid, tier, t0, res, {
        "rule": "every code point U+0001..U+10FFFF (width class and bell class: bisection vs linear scan of the same tables, tables checked sorted/disjoint); "
                "every line of <= maxlen characters over {a, tab, U+4E00 wide, U+0300 zero-width, U+064E placeholder, U+0628 Arabic, U+200C ZWNJ} + newline "
                "x order {0,1,2} x td {-2..2} x lim {3,256}; non-trivial = contains a non-'a' character / code point with width != 1 or bell class",
        "depth_bound": res.stats.get("maxlen"),
        "explanation": "tiling in visual order, ren_pos/ren_off round trip for every cell, ren_next left/right neighbours, ren_cursor inside the cell span, ren_noeol, ren_wid",
    }, ["cell widths of the reference: tab to the next multiple of 8, configured placeholders their declared width, bell-class characters one cell (drawn as the replacement placeholder), else the table class",
        "the h/l/| clause on the real binary is covered by the C07 exploration"])


@check("C18")
def c18(pid, tier, t0):
    exe = nv.build_harness("c18_bidi", "asan", ["c18_bidi.c", "peek_uc.c"], replace=["uc"])
    res = nv.run_shards(exe, ["tier=" + tier, "deadline=%d" % dl(tier)], nv.NCPU, dl(tier) + 60)
    return nv.finish(pid, tier, t0, res, {
        "rule": "every line of <= maxlen characters over {a,1,space,-,(,U+0628,U+0627,U+064E,U+200C,U+200D} + newline, and of <= maxlen-2 with the mark characters "
                "$ \\ { } [ ] * added, x td {-2..2}; layout x order {0,1,2} x lim {2,256}; shaping: every code point of the Arabic blocks x 11 previous x 11 next neighbours "
                "x 0..2 combining marks on each side; non-trivial = line mixing both directions / context where a joined form is expected",
        "depth_bound": res.stats.get("maxlen"),
        "explanation": "AddressSanitizer build; permutation + terminator last on every line; exact run reversal vs a hand-written class scanner on lines without mark characters; "
                       "ren_position follows the same visual order when reordering is enabled and logical order otherwise; shaping vs Unicode decomposition data (python unicodedata)",
    }, ["reference direction classes hard-code the subset of conf.h's right-to-left/neutral sets that occurs in the alphabet",
        "on lines containing mark characters only the permutation invariant and memory safety are checked",
        "letters outside the editor's joining table may stay unshaped (the property allows replacing only by a correct form)"])


@check("C10")
def c10(pid, tier, t0):
    exe = nv.build_harness("c10_regex", "plain", ["c10_regex.c"], extra_flags=["-O2"])
    res = nv.run_shards(exe, ["tier=" + tier, "deadline=%d" % dl(tier)], nv.NCPU, dl(tier) + 60)
    return nv.finish(pid, tier, t0, res, {
        "rule": "all pattern ASTs of <= ast_size nodes over atoms {a,b,.,[ab],[^a],[[:alpha:]],U+00E9,^,$,\\<,\\>} and constructors {concat,|,(),*,+,?,{0,1},{1,2},{2},{2,}} "
                "x all subjects of <= subject_len characters over {a,b,B,space,U+00E9}+newline x icase x notbol x noteol; pattern sets = all ordered pairs of small ASTs "
                "with and without an unused slot; non-trivial/distinct = distinct (pattern, subject, reported spans) among matches",
        "depth_bound": res.stats.get("ast_size"),
        "explanation": "every reported span checked against the all-spans relation (genuine), leftmost start, no missed match when the depth counter stayed 0, "
                       "and equality with the greedy/left-biased first-parse including all group spans for patterns without a nullable unbounded repetition; "
                       "the depth counter must stay 0 on all such small cases and on the long-run family",
    }, ["reference conventions of DESIGN.md appendix A (subject includes its newline; ^/$ also at embedded newlines; ASCII-only case folding; a group keeps its last participating iteration)",
        "patterns with an unbounded repetition of a nullable sub-term keep only the genuine / leftmost / not-missed checks",
        "the depth-limit counter is the only hook (regex.c, NEATVI_VERIF)"])


@check("C11")
def c11(pid, tier, t0):
    exe = nv.build_harness("c11_pattern", "asan", ["c11_pattern.c", "peek_regex.c"], replace=["regex"])
    res = nv.run_shards(exe, ["tier=" + tier, "deadline=%d" % dl(tier)], nv.NCPU, dl(tier) + 120)
    if tier == "thorough":
        exe2 = nv.build_harness("c11_pattern", "plain", ["c11_pattern.c", "peek_regex.c"], replace=["regex"], extra_flags=["-O2"])
        res = nv.run_shards(exe2, ["tier=" + tier, "deadline=%d" % dl(tier), "exact=1", "len=6"], nv.NCPU, dl(tier) + 120, res=res, tag="x")
    return nv.finish(pid, tier, t0, res, {
        "rule": "every string of <= pattern_len symbols over the 24-symbol alphabet a ( ) [ ] ^ $ | * + ? { } , 1 2 \\ < > . - : 0xC3 0xA9, plus the repetition-bound family "
                "X{m} X{m,} X{,n} X{m,n} (X{m,n}){p,q} with bounds in {0,1,2,127,128,129,255,4294967295,99999999999}, group-count family (a)xk, long runs; "
                "each compiled directly (program length vs allocation), via the pattern-set and single-pattern matchers, icase on/off, and matched against 10 UTF-8 lines x notbol x noteol; "
                "non-trivial = pattern that compiles",
        "depth_bound": res.stats.get("pattern_len"),
        "explanation": "AddressSanitizer build, each case in a forked child so that a sanitizer abort, signal or hang is attributed to its pattern; pattern strings are exact-size heap copies",
    }, ["lines are valid UTF-8 and <= 12 characters; the property's 'random longer strings' clause is sampling and is not used",
        "thorough adds length 6 on the plain build with only the exact program-length check"])


@check("C12")
def c12(pid, tier, t0):
    exe = nv.build_harness("c12_fastpath", "plain", ["c12_fastpath.c", "peek_rstr.c"], replace=["rstr"], extra_flags=["-O2"])
    res = nv.run_shards(exe, ["tier=" + tier, "deadline=%d" % dl(tier)], nv.NCPU, dl(tier) + 60)
    return nv.finish(pid, tier, t0, res, {
        "rule": "all 16 anchor combinations ^? \\<? lit \\>? $? with literals of <= literal_len characters over {a,B,-,space,U+00E9,|,^,b} (empty literal included) "
                "x all lines of <= line_len characters over {a,b,B,-,space,U+00E9}+newline x icase x notbol x noteol, and every suffix of every line with notbol (the way :s///g and mid-line searches call the matchers); classifier on every string of <= 3 (thorough 4) symbols over the "
                "metacharacter alphabet; non-trivial = comparison in which both matchers found a match",
        "depth_bound": res.stats.get("line_len"),
        "explanation": "rstr_make/rstr_find vs rset_make(1)/rset_find on the same input: same found/not-found, same (so,eo); groups 1..3 pre-filled with a sentinel must come back -1; "
                       "a pattern classified as literal (peek at rstr.c's private field) must contain no ERE operator outside the anchor slots",
    }, ["comparisons are made whether or not the fast path was taken (the classifier result is only used for the listed deviation and the classifier clause)",
        "lines are newline-terminated, as every line the editor hands to the matcher"])


WRAPS = ["open", "read", "write", "close", "ftruncate", "stat", "access", "poll", "getc", "printf",
         "ioctl", "tcgetattr", "tcsetattr", "isatty", "kill", "term_cmd", "lbuf_edit", "lbuf_rd"]


@check("C01")
def c01(pid, tier, t0):
    exe = nv.build_harness("c01_rw", "asan", ["c01_rw.c"], wraps=WRAPS)
    res = nv.run_shards(exe, ["tier=" + tier, "deadline=%d" % dl(tier)], nv.NCPU, dl(tier) + 120)
    return nv.finish(pid, tier, t0, res, {
        "rule": "files as (line lengths, final-newline flag): single lines of every length 0..4300 and 8190..8194; all 2-line (thorough: 3-line) files with lengths in "
                "{0,1,2,127..129,1022..1026,2047..2049,4093..4098,8191..8193}; line counts {0..3,510..514,1022..1026,2047..2049}; every byte 1..255 at offsets 0,1023,1024,4095,4096; "
                "x all ranges x previous target {absent, shorter, equal, longer by 1, longer by >4096}; all placements of <= deviation_bound short reads/writes (counts 1, n/2, n-1; the quick tier places two, including a short retry, on one- and two-line files of every size class); "
                "plus :e/:w/:a,bw/%p of the real main() on a subset; every file is a distinct non-trivial case",
        "deviation_bound": res.stats.get("deviation_bound"),
        "explanation": "real lbuf_rd/lbuf_wr/sbuf over an in-memory file behind wrapped open/read/write/close/ftruncate (AddressSanitizer build); reference = split on newline / concatenate lines",
    }, ["NUL bytes are outside the property", "a short count of 0 is not in the deviation alphabet (write_fully would spin; stated in DESIGN.md)",
        "ftruncate answers with success (default environment)"])


@check("C04")
def c04(pid, tier, t0):
    exe = nv.build_harness("c04_lbuf", "asan", ["c04_lbuf.c", "peek_lbuf.c"], replace=["lbuf"], wraps=WRAPS)
    res = nv.run_shards(exe, ["tier=" + tier, "deadline=%d" % dl(tier)], nv.NCPU, dl(tier) + 120)
    exe2 = nv.build_harness("c04_vi_undo", "plain", ["c04_vi_undo.c"], wraps=WRAPS)
    res = nv.run_shards(exe2, ["tier=" + tier, "deadline=%d" % dl(tier)], nv.NCPU, dl(tier) + 120, res=res, tag="v")
    nv.conformance(res)
    return nv.finish(pid, tier, t0, res, {
        "rule": "(a) line-buffer interface: operations = lbuf_edit(text,beg,end) for every 0<=beg<=end<=len+1 and text in {NULL,\"\",a\\n,b\\nc\\n,d} (buffers capped at 6 lines), "
                "new command (lbuf_modified), undo, redo, saved(0), saved(1); all sequences up to depth, each rebuilt by replay on a fresh buffer; plus runs of 130 edits/undos/redos across the "
                "128-entry history growth; (b) editor level: all sequences up to depth over single edits (x rZ ~ :1d), compound commands (3x 2dd dG :g/a/d :%s/a/b/g :1,2!tr o..<ESC> 3J >G p . 2. "
                "cw yyP ddp nested :g) and u ^R :u :redo in vi mode; distinct = distinct canonical (text, history) states reached in (a)",
        "depth_bound": res.stats.get("depth"),
        "explanation": "(a) after every step lbuf_len/lbuf_get/lbuf_cp, the status of undo/redo and the dirty answer of lbuf_modified() are compared with a reference that keeps whole-text snapshots grouped by command; "
                       "(b) the harness snapshots the whole text after every command that spliced the buffer (seen through the wrapped lbuf_edit); each undo must give exactly the previous snapshot in one step, "
                       "each redo the one it replaced, a new edit discards the redo branch, undo/redo at the ends change nothing",
    }, ["an lbuf_edit() call other than (NULL text, empty range) counts as a history entry (interface convention)",
        "marks are not part of the compared state", "(b): a key sequence such as yyP or ddp is one undo step per command it contains, so compound keys are single commands only"])


@check("C05")
def c05(pid, tier, t0):
    exe = nv.build_harness("c05_safety", os.environ.get("C05_VARIANT", "asan"), ["c05_safety.c"], wraps=WRAPS)
    res = nv.run_shards(exe, ["tier=" + tier, "deadline=%d" % dl(tier)], nv.NCPU, dl(tier) + 180)
    res.stats["distinct_nontrivial"] = res.stats.get("leaves", 0) + res.stats.get("stream_executions", 0)
    return nv.finish(pid, tier, t0, res, {
        "rule": "(i) all sequences of <= depth tokens over the vi token alphabet (motions, operators with and without motion, counts, register prefixes, inserts with editing keys, "
                "repeat/macro/undo, scrolls, window and buffer commands, a menu of well-formed/truncated/nonsensical ex lines incl. 510..700-byte lines and nested :g) and over the ex-line "
                "alphabet, from configurations {empty, ASCII, 30 lines, UTF-8 mix with wide/combining/RTL, 300-char line, 300-letter word, 130 two-byte letters, 280-byte path name, 200 blanks of indentation}; tokens include path names of 255..512 bytes with the commands that expand % and #, and streams that open 15..19 files "
                "x windows {24x80, 2x2, 3x10, 8x40} x option sets (every single token from every configuration; depth 2 from 5 configurations in the quick tier, from all but the long-word x small-window ones in the thorough tier); "
                "(ii) 8 base sessions with every single (thorough: also double) token substitution/deletion/insertion; distinct_nontrivial = complete executions that ran to the quit",
        "depth_bound": 2 if tier == "quick" else 3,
        "deviation_bound": 1 if tier == "quick" else 2,
        "explanation": "AddressSanitizer(+bounds) build of the real editor; a sanitizer report or signal, a non-zero exit, no return to the quit within the horizon, or asking for input after the quit are violations",
    }, ["typed text and patterns are valid UTF-8; ^Z, :make, :rk and the ECMD script are not in the alphabet; filters are deterministic shell commands",
        "bounded time = the per-operation horizon (20 s), far above the microseconds-to-milliseconds a command takes"])


@check("C02")
def c02(pid, tier, t0):
    exe = nv.build_harness("c02_dirty", "plain", ["c02_dirty.c", "peek_ex.c", "peek_lbuf.c"], replace=["ex", "lbuf"], wraps=WRAPS)
    res = nv.run_shards(exe, ["tier=" + tier, "deadline=%d" % dl(tier)], nv.NCPU, dl(tier) + 120)
    nv.conformance(res)
    return nv.finish(pid, tier, t0, res, {
        "rule": "explicit-state search (fork snapshots, state matching on buffer table + texts + canonical histories + file contents + model) over the operations "
                "{1d, $a|x|., 1s/^/z/, u, redo, w, w!, 1,1w, w g, w! g, e!, e f1|f2|f3, e #, b 1|2|3|+|-, external change of the current file} from 2 initial configurations; "
                "three twin probes in every state (b + q + sentinel; e <other file>; b <other buffer>); 16-buffer run with the modified buffer in each slot; "
                "distinct_nontrivial = distinct canonical states",
        "depth_bound": res.stats.get("depth"),
        "explanation": "dirtiness is decided by the harness alone: text of each buffer (read through a peek at ex.c's table) vs the content its file had when the editor last read or wrote it "
                       "(recorded at the wrapped close()); refusal/acceptance is observed as the property says (sentinel after q, message, '*' flag)",
    }, ["autowrite and writeany are off (defaults)", "ex mode; the vi bindings (ZZ, :q from vi, ^G flag) share ec_quit/ec_write/lbuf_modified",
        "the clause 'allowed again' is enforced when every buffer is at the history position of its last successful whole write or read"])


@check("C03")
def c03(pid, tier, t0):
    exe = nv.build_harness("c03_faults", "plain", ["c03_faults.c", "peek_ex.c", "peek_lbuf.c"], replace=["ex", "lbuf"], wraps=WRAPS)
    res = nv.run_shards(exe, ["tier=" + tier, "deadline=%d" % dl(tier)], nv.NCPU, dl(tier) + 120)
    return nv.finish(pid, tier, t0, res, {
        "rule": "buffer shapes {0 lines, 1 short line, 3x2000 bytes, one 5000-byte line, 2000+5000+10} x commands {w, w!, w g, w! g, wq, x, xa, wq!, xa!}; the call sequence "
                "open/write*/close of each is learnt from a logged fault-free run, then every placement of <= deviation_bound faults (open->EACCES; write->ENOSPC/EIO/EINTR/short 1,n/2,n-1; "
                "close->EIO) is executed in a fresh process; plus the target existence/identity/mtime guard matrix without faults, also with an allowed write to another path (w h, w! h, 1,1w h) between the outside change and the command; every execution is a distinct non-trivial case",
        "deviation_bound": res.stats.get("deviation_bound"),
        "explanation": "real editor (ex mode) over the in-memory VFS with a virtual clock; after the command: success reported <=> no error answer fired; file bytes exact on success; "
                       "q + sentinel (refused after a failure, accepted after success); fault-free w! retry must succeed with exact bytes",
    }, ["ftruncate is left at its default answer (not in the property's quantifier)", "EINTR on write is an error answer (the editor does not retry it; the property only exempts retried short writes)",
        "mtime has one-second granularity: an external change within the same tick as the editor's own write is not 'newer'"], level="model_checking")


@check("C14")
def c14(pid, tier, t0):
    exe = nv.build_harness("c14_subst", "asan", ["c14_subst.c"], wraps=WRAPS)
    res = nv.run_shards(exe, ["tier=" + tier, "deadline=%d" % dl(tier)], nv.NCPU, dl(tier) + 120)
    nv.conformance(res)
    return nv.finish(pid, tier, t0, res, {
        "rule": "32 curated patterns (literals, anchors, word boundaries, empty-matching, groups, alternation, bounds) and all pattern ASTs of <= 2 nodes x 12 replacements "
                "(empty, literal, \\0 \\1 \\2 \\9, [\\1\\2], \\\\, \\/, \\x, multi-byte) x g on/off x ic on/off x every line of <= line_len characters over {a,b,space,U+00E9,A} placed between two guard lines; "
                "plus range/empty-pattern cases on a 4-line buffer; distinct_nontrivial = substitutions in which the reference changes the line",
        "depth_bound": res.stats.get("line_len"),
        "explanation": "the real :s command (ex_command on an initialised editor, AddressSanitizer build); reference = leftmost first-parse of ref_re from the scan position judged in the whole original line, "
                       "replacement expansion as stated in the property; guard lines must stay byte-identical; results must be valid UTF-8",
    }, ["patterns with an unbounded repetition of a nullable sub-term are skipped", "& in the replacement is not part of the property and not used"])


@check("C13")
def c13(pid, tier, t0):
    exe = nv.build_harness("c13_search", "asan", ["c13_search.c"], wraps=WRAPS)
    res = nv.run_shards(exe, ["tier=" + tier, "deadline=%d" % dl(tier)], nv.NCPU, dl(tier) + 120)
    exe2 = nv.build_harness("c13_vikeys", "plain", ["c13_vikeys.c"], wraps=WRAPS)
    res = nv.run_shards(exe2, ["tier=" + tier, "deadline=%d" % dl(tier)], nv.NCPU, dl(tier) + 120, res=res, tag="v")
    nv.conformance(res)
    return nv.finish(pid, tier, t0, res, {
        "rule": "(a) 27 patterns (literals, anchors, word boundaries, empty-matching, groups, alternation) x every buffer of 1-2 lines of <= line_len characters and of 3 lines of <= 1 (thorough 2) "
                "characters over {a,b,space,U+00E9} x every cursor position x forward/backward x ic on/off on the real lbuf_search; (b) vi mode: all sequences up to depth over "
                "{/p ?p for 6 patterns, counts 2 and 3, line offsets /p/+1 ?p?-1, the empty pattern, n N 2n 2N 3n, ^A 2^A, j w $ G} from every start position of two buffers (adjacent and "
                "overlapping matches, multi-byte text, empty line); distinct_nontrivial = searches for which the reference finds a match (a) + distinct (cursor, last search) states (b)",
        "depth_bound": res.stats.get("depth"),
        "explanation": "landing position (row, character offset) and match length compared with a whole-line reference: forward = smallest match start after the cursor character, else first match of the "
                       "nearest following line; backward = last of the successive matches beginning before the cursor, else the last on the nearest preceding line; nothing found = position unchanged; no wrap-around; "
                       "in vi mode a count is that many successive searches, n repeats in the same and N in the opposite direction, an offset lands line-wise on the first non-blank, ^A searches \\<word\\>",
    }, ["AddressSanitizer build for (a)", "n after ^A and ^A on a non-word character are left open in (b)"])


@check("C06")
def c06(pid, tier, t0):
    exe = nv.build_harness("c06_exref", "plain", ["c06_exref.c", "peek_ex.c", "peek_lbuf.c"], replace=["ex", "lbuf"], wraps=WRAPS)
    res = nv.run_shards(exe, ["tier=" + tier, "deadline=%d" % dl(tier)], nv.NCPU, dl(tier) + 120)
    nv.conformance(res)
    res.stats["distinct_nontrivial"] = res.stats.get("transitions", 0)
    return nv.finish(pid, tier, t0, res, {
        "rule": "every (command, address) pair - commands a/i/c with 0,1,2 text lines, d, d a, d A, y, y b, pu, pu a, pu b, r of 2/1/0-line and missing files, p, =, k a, k c, rs, @ b (register b holding the command line d), the filters !tr o 0 and !sed d (no output) - x address forms "
                "{none, %, 0, 1, 2, 9, ., $, 'a, 'b(unset), /ax/, ?ax?, /zz/, //, ??, /ax/+1, .+1, $-1, +, -, +2, 'a-1, 1,2  2,3  1,$  .,$  .,+1  1;+1  2;+1  /ax/;+1  3,1  'a,$  1,9  2;/ax/} from every "
                "initial configuration (buffers of 0,1,3,4 lines x every current line x mark a unset or on every line, registers preloaded); plus all sequences up to depth over a reduced alphabet; "
                "every transition is a distinct (configuration, history) case",
        "depth_bound": res.stats.get("depth"),
        "explanation": "real ex mode in lock-step with a reference line editor holding line identities: after every command the buffer bytes, printed output, current line, marks (by identity) and registers are compared",
    }, ["one-address commands are given one address; addressed forms of = only (POSIX and neatvi differ in the default)", "the filter is one deterministic command (tr o 0), enabled where the reference knows whether the buffer counts as modified (a filter is refused on unsaved changes); @ runs one stored command line; the address-less :!cmd is exercised by C05 only",
        "marks are compared only while their line exists in the reference"])


@check("C15")
def c15(pid, tier, t0):
    exe = nv.build_harness("c15_global", "asan", ["c15_global.c"], wraps=WRAPS)
    res = nv.run_shards(exe, ["tier=" + tier, "deadline=%d" % dl(tier)], nv.NCPU, dl(tier) + 120)
    nv.conformance(res)
    return nv.finish(pid, tier, t0, res, {
        "rule": "patterns {a, ^$, b$, .} x {g, g!, v} x ranges {none, %, 2,3, 2,$} x 31 command lists (d, -1d, +1d, .,+1d, s/a/b/, s/a/ab/g, pu a, 0pu a, i|x|., a|x|., c|x|., -1a|a|., d|pu, s/a/c/|-1d, "
                "nested g/b/d, nested g/a/s/a/b/, y b|pu b, ka|'ad, two-line blocks for c/i/a/.,+1c, the always-rejected 'zd and +9d, and +1s/b/a/, +1s/a/b/, -1s/b/a/ which change whether a neighbouring line matches, -2,-1d / -2,-1s/$/x/ / -1,.d which move the lines still to be visited above the scan position, and the nested ranged global .,+1g/./s/$/!/) x every buffer of 1..buffer_lines lines over the contents {a, b, ab, empty}; distinct_nontrivial = globals that change the buffer",
        "depth_bound": res.stats.get("buffer_lines"),
        "explanation": "real :g through ex_command on an initialised editor (AddressSanitizer build); reference keeps line identities: the lines of the range that still exist are visited once in order, "
                       "inserted lines never; the number of executions is observed through the text blocks the command list consumes; one :u must restore the pre-global text; in a second pass two further globals (2,3v/zzz/s/$/!/ and %v/zzz/s/$/!/) run on the state the first one left behind and must visit exactly their own lines",
    }, ["a command list whose last command is rejected stops the global (ex convention, as in the implementation)", "current line after the global is not compared"])


@check("C20")
def c20(pid, tier, t0):
    exe = nv.build_harness("c20_buffers", "plain", ["c20_buffers.c", "peek_ex.c", "peek_lbuf.c"], replace=["ex", "lbuf"], wraps=WRAPS)
    res = nv.run_shards(exe, ["tier=" + tier, "deadline=%d" % dl(tier)], nv.NCPU, dl(tier) + 120)
    nv.conformance(res)
    return nv.finish(pid, tier, t0, res, {
        "rule": "explicit-state search with state matching over {e f1|f2|f3|f4, e #, b 1..4, b +, b -, b #, b %, b ~, b !, 1d, $a|x|., u, w, 2 (move), external change of f2} with 3 and 4 files; "
                "plus a 16-file run that fills the buffer table, rotates through every slot three times and reads back every buffer; distinct_nontrivial = distinct canonical states",
        "depth_bound": res.stats.get("depth"),
        "explanation": "after every operation: buffer table order and ids vs a most-recently-used reference; every non-current buffer's text, saved line and canonical undo history/dirty flag (peek) identical to "
                       "the snapshot taken when it was left; the buffer reached by a switch identical to how it was left (so an open path is never re-read); twin probe of %p and $=",
    }, ["which switches are refused is predicted from the editor's own dirty flag (its correctness is C02's subject)", "ex mode; the vi shortcuts (^^ zj zk zD) call the same ex commands"])


@check("C07")
def c07(pid, tier, t0):
    exe = nv.build_harness("c07_motions", "plain", ["c07_motions.c"], wraps=WRAPS)
    res = nv.run_shards(exe, ["tier=" + tier, "deadline=%d" % dl(tier)], nv.NCPU, dl(tier) + 120)
    nv.conformance(res)
    return nv.finish(pid, tier, t0, res, {
        "rule": "motions h l j k 0 ^ $ | w b e W B E f F t T ; , G + - _ % { } H M L space, bare and with counts {2,3,9} (f/t with a character present once, twice, absent, multi-byte), "
                "from every start position of 8 buffers (ASCII words/punctuation/blank-led and empty lines, tabs + 2-byte + wide, combining + brackets, empty buffer, single character, nested brackets "
                "across lines, punctuation runs, 12 lines in a 5-row window); all sequences up to depth over a 16-motion core alphabet and all pairs over the full alphabet "
                "(state matching on cursor + sticky column + last find + window top); distinct_nontrivial = distinct (cursor, hidden state) states",
        "depth_bound": res.stats.get("depth"),
        "explanation": "real vi mode; cursor (xrow, xoff) read directly at idle points and compared with ref_vi (word motions by word-start/word-end predicates on the flattened text, j/k through the sticky "
                       "display column, % by bracket depth, { } by empty-line runs, H M L from the real window top); invariants in every state: text unchanged, cursor on an existing character, never on "
                       "the terminator of a non-empty line",
    }, ["counts on $ 0 ^ M and NG beyond the last line are not in the alphabet (neatvi ignores / clamps them, POSIX differs: not adjudicated)",
        "blank-only lines and right-to-left lines are not in the buffers (C17 covers right-to-left layout)", "an empty line is a word for w b e (POSIX wording)"])


def _c08(pid, tier, t0, own):
    exe = nv.build_harness("c08_operators", "plain", ["c08_operators.c"], wraps=WRAPS)
    res = nv.run_shards(exe, ["tier=" + tier, "deadline=%d" % dl(tier)], nv.NCPU, dl(tier) + 120)
    return exe, res


@check("C08")
def c08(pid, tier, t0):
    exe, res = _c08(pid, tier, t0, True)
    nv.conformance(res)
    # violations of the UTF-8 invariant belong to C16 (reported there as well); here they still count as failures
    return nv.finish(pid, tier, t0, res, {
        "rule": "operators d y c < > g~ gu gU x 31 motions (word, character, line, find, bracket, paragraph, window) with counts on either side and register prefixes \"a \"A; doubled operators with counts; "
                "x X D C s S Y p P (counts, registers a b 1 2) J r ~ ; inserts i a I A o O with plain, multi-byte, multi-line text and the editing keys ^H ^W ^U ^V; from every cursor position of 6 buffers "
                "(ASCII, tabs/multi-byte/wide, combining + brackets, empty, single character, nested brackets); sequences over a 16-command core alphabet and pairs over the full one with state matching; "
                "distinct_nontrivial = distinct (text, cursor, registers) states",
        "depth_bound": res.stats.get("depth"),
        "explanation": "real vi mode; after every command the text, cursor and registers \" a b 1..9 are compared with ref_vi: the span runs from the cursor to the unclamped motion target (ref_vi of C07), "
                       "exclusive, inclusive (f t e E %) or line-wise (j k G + - _ H L M, doubled operator); every line of every reached state is validated as UTF-8 (C16)",
    }, ["numbered registers are not compared after yanks (the property only speaks of deletions)", "text-adding commands in an empty buffer and multi-line character-wise puts: cursor not compared",
        "c is literal (cw is not ce), as the property words it", "filters (!) are exercised by C05 and C04, not here"])


@check("C09")
def c09(pid, tier, t0):
    exe = nv.build_harness("c09_repeat", "plain", ["c09_repeat.c"], wraps=WRAPS)
    res = nv.run_shards(exe, ["tier=" + tier, "deadline=%d" % dl(tier)], nv.NCPU, dl(tier) + 120)
    res.stats["evaluations"] = res.stats.get("relations_checked", 0)
    res.stats["transitions"] = res.stats.get("transitions", 0) + res.stats.get("twin_probes", 0)
    return nv.finish(pid, tier, t0, res, {
        "rule": "for every state reached by <= depth preceding commands from {j, w, $, x, dd, yyp, xu, yw} out of every (buffer, line, column) start: for each of 58 change commands "
                "(x X d c y s S C D r ~ g~ gu gU J p P < > ! i a I A o O with counts on either side, register prefixes, multi-byte / multi-line / edited inserts, prompting filters) the twin pairs "
                "'c.' vs 'cc', 'c3.' vs 'cccc', 'c.f' vs 'ccf' for f in {x, p, .}, 'cj.' vs 'cjc'; 9 macros: '@q' vs typing, '2@q' vs twice, '@q@@' vs twice; long records: 'xjA<n bytes><ESC>k0.' vs retyping for 19 lengths n from 1 to 4090; "
                "distinct_nontrivial = distinct resulting states among the relations",
        "depth_bound": res.stats.get("depth"),
        "explanation": "purely differential: both key sequences are run from the same forked state of the real editor and must end in identical text, cursor and registers (all 256 except . : %)",
    }, ["the recording-buffer boundary (inserts of 4080..4100 bytes followed by '.') is only checked for crashes here; C05 runs under AddressSanitizer"])


@check("C19")
def c19(pid, tier, t0):
    exe = nv.build_harness("c19_screen", "plain", ["c19_screen.c"], wraps=WRAPS)
    res = nv.run_shards(exe, ["tier=" + tier, "deadline=%d" % dl(tier)], nv.NCPU, dl(tier) + 120)
    res.stats["distinct_nontrivial"] = res.stats.get("states", 0)
    res.stats["transitions"] = res.stats.get("transitions", 0) + res.stats.get("twin_probes", 0)
    return nv.finish(pid, tier, t0, res, {
        "rule": "all command sequences up to depth over {j k G 1G ^F ^B ^D ^U ^E ^Y dd 3dd o..<ESC> O..<ESC> p x u $ 0 J :2,4d :$ z<CR> z. z-} (and, one level less, also H L P ^R 20| i..<CR>..<ESC> :1 yy 5j w "
                "^Ws ^Wj ^Wo 3yy 5k) from buffers of 0/3/40 lines (long lines, tabs, wide characters, empty lines) in windows 5x20, 8x40, 24x80 with hl/hll on and off; every idle state is checked",
        "depth_bound": res.stats.get("depth"),
        "explanation": "the bytes written to fd 1 drive an in-process VT100 emulator (CUP, CR, LF with scroll region, CSI L/M/K/C/D/r, SGR ignored, 2-cell characters); in every idle state (1) the text rows equal a "
                       "reference rendering of lines xtop.. clipped at xleft (fillers past the end), the window holds the cursor line and the terminal cursor lies in the cells of character (xrow,xoff); "
                       "(2) a twin fills the grid with a sentinel, sends ^L, and its fully repainted rows and cursor must equal the incrementally maintained ones",
    }, ["the message row is not compared", "with two windows only the differential (repaint) oracle is used", "right-to-left lines are not in these buffers"])


REPLAY = {
    "C02": ("c02_dirty", "plain", ["c02_dirty.c", "peek_ex.c", "peek_lbuf.c"], ["ex", "lbuf"]),
    "C04": ("c04_vi_undo", "plain", ["c04_vi_undo.c"], []),
    "C05": ("c05_safety", "asan", ["c05_safety.c"], []),
    "C06": ("c06_exref", "plain", ["c06_exref.c", "peek_ex.c", "peek_lbuf.c"], ["ex", "lbuf"]),
    "C07": ("c07_motions", "plain", ["c07_motions.c"], []),
    "C08": ("c08_operators", "plain", ["c08_operators.c"], []),
    "C09": ("c09_repeat", "plain", ["c09_repeat.c"], []),
    "C13": ("c13_vikeys", "plain", ["c13_vikeys.c"], []),
    "C16": ("c08_operators", "plain", ["c08_operators.c"], []),
    "C17": ("c19_screen", "plain", ["c19_screen.c"], []),	# its editor-level part (h / l as visual motions)
    "C19": ("c19_screen", "plain", ["c19_screen.c"], []),
    "C20": ("c20_buffers", "plain", ["c20_buffers.c", "peek_ex.c", "peek_lbuf.c"], ["ex", "lbuf"]),
}


def replay(path):
    """Re-execute one recorded history without the explorer (explorer-based checks); otherwise print the artefact."""
    import re, subprocess
    txt = open(path).read()
    print(txt)
    m = re.search(r"^property=(C\d+)", txt, re.M)
    a = re.search(r'args="([^"]*)"', txt)
    if not m or not a or m.group(1) not in REPLAY or "kind=history" not in txt:
        print("(this artefact names the failing case directly; re-run the check to re-evaluate it)")
        return 0
    name, variant, srcs, repl = REPLAY[m.group(1)]
    exe = nv.build_harness(name, variant, srcs, replace=repl, wraps=WRAPS)
    env = dict(os.environ)
    env.update({"ASAN_OPTIONS": "detect_leaks=0:abort_on_error=1", "LC_ALL": "C", "EXINIT": "", "TAGPATH": "/nonexistent/tags"})
    r = subprocess.run([exe] + a.group(1).split() + ["out=/dev/stdout"], stdout=subprocess.PIPE, stderr=subprocess.STDOUT, env=env, cwd=nv.OUT)
    out = r.stdout.decode(errors="replace")
    bad = [l for l in out.splitlines() if l.startswith(("VIOL ", "DEV "))]
    print("--- replay of the recorded history on the current tree (%s) ---" % nv.NV_SRC)
    for l in bad:
        print(l[:1500])
    print("replay: %s" % ("violation reproduced" if bad else "no violation on the current tree"))
    return 1 if bad else 0
